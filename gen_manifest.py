#!/usr/bin/env python3
"""Regenerates MANIFEST.json from checks.json + manifest_meta.json (kept valid at all times)."""
import json, os
ROOT = os.path.dirname(os.path.abspath(__file__))
cfg = json.load(open(os.path.join(ROOT, "checks.json")))
meta = json.load(open(os.path.join(ROOT, "manifest_meta.json")))
props = [json.loads(l) for l in open(os.path.join(ROOT, "properties.jsonl")) if l.strip()]
checks, na = [], []
for p in props:
    pid = p["id"]
    m = meta["checks"].get(pid)
    if pid in cfg and m:
        checks.append({
            "property_id": pid,
            "quick_cmd": "./check %s quick" % pid,
            "thorough_cmd": "./check %s thorough" % pid,
            "evidence_file": "evidence/%s.json" % pid,
            "replay_cmd_template": "./check %s --replay {path}" % pid,
            "engine": "rapid-pbt",
            "level_claimed": {"category": "exploration", "text": m["text"], "design_ref": m.get("design_ref", "DESIGN.md §3 " + pid)},
            "level_note": m["note"],
            "technique": m["technique"],
        })
    else:
        na.append({"property_id": pid, "reason": meta["not_applicable"].get(pid, "check not built yet in this session; see DESIGN.md §3 for the planned generated-input check")})
man = {
    "version": 1,
    "setup_cmd": "./check --build",
    "hooks": meta["hooks"],
    "engines": [{"name": "rapid-pbt", "path": "props/", "serves_properties": [c["property_id"] for c in checks],
                 "kind_free_text": "pgregory.net/rapid v1.3.0 property-based tests (generators in h/, reference model in model/), driven and sharded by ./check; native go test -fuzz legs in the thorough tier where the input is a byte string"}],
    "checks": checks,
    "notes": meta["notes"],
    "not_applicable": na,
}
json.dump(man, open(os.path.join(ROOT, "MANIFEST.json"), "w"), indent=1)
print("MANIFEST.json: %d checks, %d not_applicable" % (len(checks), len(na)))
