#!/bin/bash
# evaluates every finished mutant under /tmp/wt/Cxx.out ; results appended to /tmp/eval.log
cd /verif
for d in /tmp/wt/C??.out; do
  id=$(basename $d .out)
  for n in 1 2; do
    [ -f $d/mutant$n.diff ] && [ -f $d/demo$n\_test.go ] || continue
    grep -q "^DONE $id $n\$" /tmp/eval.done 2>/dev/null && continue
    sub=.
    grep -q '^package context' $d/demo$n\_test.go && sub=context
    race=""; [ $id = C18 ] && race=race
    DEMO_RACE=$race ./eval_mutant.sh $id $d/mutant$n.diff $d/demo$n\_test.go $sub 2>&1 | grep -E "^(SANITY|CHECK|RESULT)" | sed "s/^/[$id m$n] /" >> /tmp/eval.log
    echo "DONE $id $n" >> /tmp/eval.done
  done
done
