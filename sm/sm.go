// Package sm is the state machine over a set of Decimal variables that the
// history properties (C08, C09) and the three-build differential (C07) share:
// a JSON-serialisable program of public API calls, an executor, and a rapid
// generator that draws each step against the machine's current state.
package sm

import (
	"encoding/binary"
	"encoding/json"
	"fmt"
	"math"
	"math/big"
	"strings"

	"github.com/db47h/decimal"

	"verif/h"
	"verif/model"
)

// Step is one public API call. Z is the receiver variable, A the operand variables.
type Step struct {
	Op  string   `json:"op"`
	Z   int      `json:"z"`
	A   []int    `json:"a,omitempty"`
	P   uint     `json:"p,omitempty"`   // SetPrec argument
	M   uint8    `json:"m,omitempty"`   // SetMode argument
	Neg bool     `json:"neg,omitempty"` // SetInf sign
	I   string   `json:"i,omitempty"`   // integer argument / numerator
	Den string   `json:"den,omitempty"` // denominator
	Exp int64    `json:"exp,omitempty"` // exponent argument
	S   string   `json:"s,omitempty"`   // literal
	B   int      `json:"b,omitempty"`   // parse base
	F   uint64   `json:"f,omitempty"`   // float64 bits / big.Float mantissa
	FP  uint     `json:"fp,omitempty"`  // big.Float precision
	FK  string   `json:"fk,omitempty"`  // big.Float kind
	W   []uint64 `json:"w,omitempty"`   // SetBitsExp words (little endian)
	Mut []int    `json:"mut,omitempty"` // gob payload mutation: [kind, position, value]
}

type Program struct {
	Init  []h.Spec `json:"init"`
	Steps []Step   `json:"steps"`
}

// Outcome of one executed step.
type Outcome struct {
	NaN     bool        // the call panicked with ErrNaN
	Panic   interface{} // any other panic value
	Err     error       // error returned by Parse / GobDecode / ...
	Rejects bool        // the call reported failure (parse error, decode error)
	Note    string
	Ret     string // read-only accessors: what they returned
}

// ReadOnly reports whether the step is an accessor: it has operands but no receiver (Z is ignored), and
// must leave every variable exactly as it was.
func ReadOnly(op string) bool { return strings.HasPrefix(op, "ro:") }

type Machine struct {
	V []*decimal.Decimal
}

func NewMachine(init []h.Spec) *Machine {
	m := &Machine{}
	for _, s := range init {
		m.V = append(m.V, s.Build())
	}
	return m
}

func bigOf(s string) *big.Int {
	n, ok := new(big.Int).SetString(s, 10)
	if !ok {
		panic(h.BuildError{Msg: "bad integer " + s})
	}
	return n
}

// BigFloatOf builds the big.Float argument of a step.
func BigFloatOf(s Step) *big.Float {
	f := new(big.Float).SetPrec(s.FP)
	switch s.FK {
	case "+inf":
		return f.SetInf(false)
	case "-inf":
		return f.SetInf(true)
	case "+0":
		return f
	case "-0":
		return f.Neg(f)
	}
	f.SetMode(big.ToZero).SetUint64(s.F | 1)
	f.SetMantExp(f, int(s.Exp))
	if s.F&2 != 0 {
		f.Neg(f)
	}
	return f
}

// MutatePayload applies a step's mutation to a valid gob payload.
func MutatePayload(b []byte, mut []int) []byte {
	if len(mut) < 3 {
		return b
	}
	b = append([]byte(nil), b...)
	kind, pos, val := mut[0], mut[1], mut[2]
	switch kind {
	case 0: // flip/set a byte
		if len(b) > 0 {
			b[pos%len(b)] = byte(val)
		}
	case 1: // truncate
		if len(b) > 0 {
			b = b[:pos%len(b)]
		}
	case 2: // extend
		for i := 0; i < 1+pos%20; i++ {
			b = append(b, byte(val+i))
		}
	case 3: // header flags: form / mode / accuracy bits
		if len(b) > 1 {
			b[1] = byte(val)
		}
	case 4: // precision field
		if len(b) >= 6 {
			binary.BigEndian.PutUint32(b[2:], uint32(val))
		}
	case 5: // exponent field
		if len(b) >= 10 {
			binary.BigEndian.PutUint32(b[6:], uint32(val))
		}
	case 6: // a whole mantissa word
		if len(b) >= 18 {
			nw := (len(b) - 10) / 8
			w := pos % nw
			v := map[int]uint64{0: 0, 1: h.Base, 2: ^uint64(0), 3: h.Base - 1, 4: 1, 5: h.Base / 10, 6: h.Base/10 - 1}[val%7]
			binary.BigEndian.PutUint64(b[10+8*w:], v)
		}
	}
	return b
}

// Do executes one step. Panics are caught and classified.
func (m *Machine) Do(s Step) (out Outcome) {
	defer func() {
		if r := recover(); r != nil {
			if _, ok := r.(decimal.ErrNaN); ok {
				out.NaN = true
				return
			}
			if be, ok := r.(h.BuildError); ok {
				panic(be)
			}
			out.Panic = r
		}
	}()
	z := m.V[s.Z]
	a := func(i int) *decimal.Decimal { return m.V[s.A[i]] }
	if ReadOnly(s.Op) {
		out.Ret = m.readOnly(s)
		return
	}
	switch s.Op {
	case "set":
		z.Set(a(0))
	case "copy":
		z.Copy(a(0))
	case "neg":
		z.Neg(a(0))
	case "abs":
		z.Abs(a(0))
	case "sqrt":
		z.Sqrt(a(0))
	case "add":
		z.Add(a(0), a(1))
	case "sub":
		z.Sub(a(0), a(1))
	case "mul":
		z.Mul(a(0), a(1))
	case "quo":
		z.Quo(a(0), a(1))
	case "fma":
		z.FMA(a(0), a(1), a(2))
	case "setprec":
		z.SetPrec(s.P)
	case "setmode":
		z.SetMode(decimal.RoundingMode(s.M))
	case "setinf":
		z.SetInf(s.Neg)
	case "setmantexp":
		z.SetMantExp(a(0), int(s.Exp))
	case "mantexp":
		a(0).MantExp(z)
	case "setint":
		z.SetInt(bigOf(s.I))
	case "setint64":
		z.SetInt64(bigOf(s.I).Int64())
	case "setuint64":
		z.SetUint64(bigOf(s.I).Uint64())
	case "setrat":
		z.SetRat(new(big.Rat).SetFrac(bigOf(s.I), bigOf(s.Den)))
	case "setfloat64":
		z.SetFloat64(math.Float64frombits(s.F))
	case "setfloat":
		z.SetFloat(BigFloatOf(s))
	case "parse":
		d, _, err := z.Parse(s.S, s.B)
		out.Err = err
		out.Rejects = err != nil
		if err == nil && d != z {
			out.Note = "Parse returned a different *Decimal"
		}
	case "setstring":
		_, ok := z.SetString(s.S)
		out.Rejects = !ok
	case "unmarshaltext":
		out.Err = z.UnmarshalText([]byte(s.S))
		out.Rejects = out.Err != nil
	case "scan":
		_, err := fmt.Sscan(s.S, z)
		out.Err = err
		out.Rejects = err != nil
	case "gob":
		b, err := a(0).GobEncode()
		if err != nil {
			out.Err = err
			out.Rejects = true
			return
		}
		b = MutatePayload(b, s.Mut)
		out.Err = z.GobDecode(b)
		out.Rejects = out.Err != nil
	case "setbitsexp":
		w := make([]decimal.Word, len(s.W))
		for i, v := range s.W {
			w[i] = decimal.Word(v)
		}
		z.SetBitsExp(w, s.Exp)
	case "setbitsexp-own":
		mant, _ := z.BitsExp()
		z.SetBitsExp(mant, s.Exp)
	case "setbitsexp-edit":
		mant, _ := z.BitsExp()
		if len(mant) > 0 && len(s.W) > 0 {
			mant[len(mant)-1] = decimal.Word(s.W[0])
		}
		z.SetBitsExp(mant, s.Exp)
	default:
		panic(h.BuildError{Msg: "sm: unknown op " + s.Op})
	}
	return
}

// readOnly runs an accessor on operand A[0] (and A[1] for Cmp) and renders what it returned.
func (m *Machine) readOnly(s Step) string {
	x := m.V[s.A[0]]
	switch s.Op {
	case "ro:int":
		i, acc := x.Int(nil)
		return fmt.Sprint(i, acc)
	case "ro:int-into":
		i, acc := x.Int(new(big.Int).Lsh(big.NewInt(-7), 300))
		return fmt.Sprint(i, acc)
	case "ro:int64":
		i, acc := x.Int64()
		return fmt.Sprint(i, acc)
	case "ro:uint64":
		i, acc := x.Uint64()
		return fmt.Sprint(i, acc)
	case "ro:rat":
		r, acc := x.Rat(nil)
		return fmt.Sprint(r, acc)
	case "ro:rat-into":
		r, acc := x.Rat(big.NewRat(-22, 7))
		return fmt.Sprint(r, acc)
	case "ro:float64":
		f, acc := x.Float64()
		return fmt.Sprint(math.Float64bits(f), acc)
	case "ro:float32":
		f, acc := x.Float32()
		return fmt.Sprint(math.Float32bits(f), acc)
	case "ro:float":
		f := x.Float(new(big.Float).SetPrec(s.FP))
		return f.Text('p', 0) + fmt.Sprint(f.Prec(), f.Acc())
	case "ro:text":
		return x.Text(s.S[0], int(s.Exp))
	case "ro:append":
		return string(x.Append([]byte("pfx"), s.S[0], int(s.Exp)))
	case "ro:format":
		return fmt.Sprintf(s.S, x)
	case "ro:string":
		return x.String()
	case "ro:gobenc":
		b, err := x.GobEncode()
		return fmt.Sprint(b, err)
	case "ro:marshaltext":
		b, err := x.MarshalText()
		return fmt.Sprint(string(b), err)
	case "ro:marshaljson":
		b, err := json.Marshal(x)
		return fmt.Sprint(string(b), err)
	case "ro:cmp":
		y := m.V[s.A[1]]
		return fmt.Sprint(x.Cmp(y), y.Cmp(x), x.Cmp(x))
	case "ro:preds":
		mant, e := x.BitsExp()
		return fmt.Sprint(x.IsInt(), x.MinPrec(), x.Sign(), x.Signbit(), x.IsInf(), x.IsZero(), x.MantExp(nil), len(mant), e, x.Acc(), x.Prec(), x.Mode())
	}
	panic(h.BuildError{Msg: "sm: unknown accessor " + s.Op})
}

// ExpectedPrec0 returns the set of precisions the documentation allows for a
// receiver whose precision was 0 before step s (operand snapshots taken before
// the step). ok=false: nothing is specified for this operation.
func ExpectedPrec0(s Step, before []h.Snap) (allowed []uint, ok bool) {
	op := func(i int) h.Snap { return before[s.A[i]] }
	umax := func(v ...uint) uint {
		m := uint(0)
		for _, x := range v {
			if x > m {
				m = x
			}
		}
		return m
	}
	digits := func(x *big.Int) uint {
		if x.Sign() == 0 {
			return 0
		}
		return uint(len(new(big.Int).Abs(x).String()))
	}
	switch s.Op {
	case "add", "sub", "mul", "quo":
		return []uint{umax(op(0).Prec, op(1).Prec)}, true
	case "fma":
		return []uint{umax(op(0).Prec, op(1).Prec, op(2).Prec)}, true
	case "sqrt", "set", "neg", "abs":
		return []uint{op(0).Prec}, true
	case "copy", "setmantexp", "mantexp":
		return []uint{op(0).Prec}, true
	case "setint":
		return []uint{umax(34, digits(bigOf(s.I)))}, true
	case "setint64", "setuint64", "parse", "setstring", "unmarshaltext", "scan":
		return []uint{34}, true
	case "setfloat64":
		return []uint{17}, true
	case "setfloat":
		return []uint{uint(h.CeilLog10_2(uint64(s.FP)))}, true
	case "setrat":
		r := new(big.Rat).SetFrac(bigOf(s.I), bigOf(s.Den))
		if r.IsInt() {
			return []uint{umax(34, digits(r.Num()))}, true
		}
		return []uint{umax(34, digits(r.Num()), digits(r.Denom())), umax(34, uint(r.Num().BitLen()), uint(r.Denom().BitLen()))}, true
	case "setinf", "setmode":
		return []uint{0}, true
	case "setprec":
		return []uint{s.P}, true
	}
	return nil, false
}

// CopiesAttributes reports whether the operation is documented to copy
// precision and mode from its argument (or from the transmitted value).
func CopiesAttributes(op string) bool {
	switch op {
	case "copy", "setmantexp", "mantexp":
		return true
	}
	return false
}

// Val returns the model value of variable i.
func (m *Machine) Val(i int) model.Val { return h.Read(m.V[i]).Val() }
