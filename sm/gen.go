package sm

import (
	"math"
	"math/big"

	"pgregory.net/rapid"

	"verif/h"
	"verif/model"
)

// Opts tunes the step generator.
type Opts struct {
	NVars       int
	MaxPrec     int   // largest precision the generator asks for (quo/sqrt cost bound)
	GapLimit    int64 // bound on the digit gap of sums
	Prec0Bias   bool  // force the receiver's precision to 0 before ~30% of the steps (C09)
	Mutations   bool  // include mutated gob payloads (C08)
	NoRawBits   bool  // exclude SetBitsExp (programs compared across builds keep it)
	MaxIntDigit int
	NoAccessors bool // exclude the read-only accessor steps
}

func DefaultOpts() Opts {
	o := Opts{NVars: 5, MaxPrec: 120, GapLimit: 1600, Mutations: true, MaxIntDigit: 200}
	if h.Thorough() {
		o.MaxPrec = 1500
		o.GapLimit = 3000
		o.MaxIntDigit = 1500
	}
	return o
}

// GenInit draws the initial variables: a mix of zero values and small finite values.
func GenInit(t *rapid.T, o Opts) []h.Spec {
	var init []h.Spec
	for i := 0; i < o.NVars; i++ {
		switch rapid.IntRange(0, 3).Draw(t, "init.kind") {
		case 0:
			init = append(init, h.Spec{F: "z"}) // the zero value, precision 0
		case 1:
			s := h.GenSpecial(t, "init", rapid.SampledFrom([]string{"z", "i"}).Draw(t, "init.sp"))
			init = append(init, s)
		default:
			d := h.GenDigits(t, "init.d", 60)
			if rapid.IntRange(0, 7).Draw(t, "init.long") == 0 {
				// dozens of words: sums and differences then go through the larger temporaries
				d = h.GenDigitsN(t, "init.dl", rapid.IntRange(400, 1600).Draw(t, "init.dln"))
			}
			s := h.Spec{F: "f", D: d, E: h.GenExp(t, "init.e"), Neg: rapid.Bool().Draw(t, "init.neg"), M: h.GenMode(t, "init.m")}
			s.P = uint(len(d) + rapid.IntRange(0, 20).Draw(t, "init.p"))
			s.Hist = h.GenHist(t, "init.h")
			init = append(init, s)
		}
	}
	return init
}

var arithOps = []string{"add", "add", "sub", "sub", "mul", "mul", "quo", "quo", "fma", "sqrt", "set", "neg", "abs", "copy"}
var attrOps = []string{"setprec", "setprec", "setmode", "setinf", "setmantexp", "setmantexp", "mantexp"}
var setterOps = []string{"setint", "setint64", "setuint64", "setrat", "setfloat64", "setfloat", "parse", "parse", "setstring", "unmarshaltext", "scan", "gob", "gob", "setbitsexp", "setbitsexp-own", "setbitsexp-edit"}

// lowExp: exponent of the least significant stored digit position of a finite snapshot.
func lowExp(s h.Snap) int64 { return int64(s.RawExp) - int64(len(s.Words))*h.DW }

func gapOK(a, b h.Snap, lim int64) bool {
	if a.Form != model.Finite || b.Form != model.Finite {
		return true
	}
	g := lowExp(a) - lowExp(b)
	if g < 0 {
		g = -g
	}
	return g <= lim
}

// Draw draws the next step against the machine's current state. The choice of
// operation and operands is steered (not filtered) so that every drawn step
// is within the cost bounds: sums only between operands whose digit gap is
// bounded, quotients and roots only at bounded precision.
func Draw(t *rapid.T, m *Machine, o Opts) Step {
	n := len(m.V)
	snaps := make([]h.Snap, n)
	for i := range m.V {
		snaps[i] = h.Read(m.V[i])
	}
	v := func(label string) int { return rapid.IntRange(0, n-1).Draw(t, label) }
	s := Step{Z: v("z")}
	var pool []string
	switch rapid.IntRange(0, 10).Draw(t, "group") {
	case 0, 1, 2, 3, 4:
		pool = arithOps
	case 5, 6:
		pool = attrOps
	case 10:
		if !o.NoAccessors {
			return drawAccessor(t, snaps, s)
		}
		pool = arithOps
	default:
		pool = setterOps
	}
	s.Op = rapid.SampledFrom(pool).Draw(t, "op")
	if o.NoRawBits && (s.Op == "setbitsexp" || s.Op == "setbitsexp-own" || s.Op == "setbitsexp-edit") {
		s.Op = "setint64"
	}
	zp := snaps[s.Z].Prec
	// effective precision the receiver will work at (precision 0 takes the operands')
	effPrec := func(ops ...int) uint {
		if zp != 0 {
			return zp
		}
		var p uint
		for _, i := range ops {
			if snaps[i].Prec > p {
				p = snaps[i].Prec
			}
		}
		return p
	}
	switch s.Op {
	case "set", "copy", "neg", "abs", "mantexp":
		s.A = []int{v("x")}
	case "sqrt":
		s.A = []int{v("x")}
		if snaps[s.A[0]].Neg && snaps[s.A[0]].Form == model.Finite && rapid.IntRange(0, 3).Draw(t, "sqrtneg") > 0 {
			// mostly avoid the (legal) ErrNaN so that roots are actually computed
			for i := range snaps {
				if !snaps[i].Neg {
					s.A[0] = i
					break
				}
			}
		}
		if effPrec(s.A[0]) > uint(o.MaxPrec) {
			s.Op, s.P, s.A = "setprec", uint(rapid.IntRange(1, o.MaxPrec).Draw(t, "cap")), nil
		}
	case "add", "sub":
		s.A = []int{v("x"), v("y")}
		if !gapOK(snaps[s.A[0]], snaps[s.A[1]], o.GapLimit) {
			// pick the operand closest in exponent instead
			best, bestGap := s.A[0], int64(math.MaxInt64)
			for i := range snaps {
				if snaps[i].Form != model.Finite {
					best, bestGap = i, 0
					break
				}
				g := lowExp(snaps[i]) - lowExp(snaps[s.A[0]])
				if g < 0 {
					g = -g
				}
				if i != s.A[0] && g < bestGap {
					best, bestGap = i, g
				}
			}
			if bestGap > o.GapLimit {
				best = s.A[0]
			}
			s.A[1] = best
		}
	case "mul":
		s.A = []int{v("x"), v("y")}
	case "quo":
		s.A = []int{v("x"), v("y")}
		if effPrec(s.A...) > uint(o.MaxPrec) {
			s.Op, s.P, s.A = "setprec", uint(rapid.IntRange(1, o.MaxPrec).Draw(t, "cap")), nil
		}
	case "fma":
		s.A = []int{v("x"), v("y"), v("u")}
		x, y, u := snaps[s.A[0]], snaps[s.A[1]], snaps[s.A[2]]
		if x.Form == model.Finite && y.Form == model.Finite && u.Form == model.Finite {
			// product's lowest digit position vs u's
			pl := lowExp(x) + lowExp(y)
			g := pl - lowExp(u)
			if g < 0 {
				g = -g
			}
			pe := int64(x.RawExp) + int64(y.RawExp)
			if g > o.GapLimit || pe > model.MaxExp || pe-1 < model.MinExp {
				s.Op, s.A = "mul", s.A[:2]
			}
		}
	case "setprec":
		switch rapid.IntRange(0, 5).Draw(t, "p.cls") {
		case 0:
			s.P = 0
		case 1:
			s.P = uint(rapid.IntRange(1, 5).Draw(t, "p"))
		default:
			s.P = uint(rapid.IntRange(1, o.MaxPrec).Draw(t, "p"))
		}
	case "setmode":
		s.M = h.GenMode(t, "m")
	case "setinf":
		s.Neg = rapid.Bool().Draw(t, "neg")
	case "setmantexp":
		s.A = []int{v("x")}
		x := snaps[s.A[0]]
		switch rapid.IntRange(0, 5).Draw(t, "exp.cls") {
		case 0, 1:
			s.Exp = int64(rapid.IntRange(-50, 50).Draw(t, "exp"))
		case 2:
			s.Exp = model.MaxExp - int64(x.RawExp) + int64(rapid.IntRange(-3, 3).Draw(t, "exp"))
		case 3:
			s.Exp = model.MinExp - int64(x.RawExp) + int64(rapid.IntRange(-3, 3).Draw(t, "exp"))
		case 4:
			// back to the middle of the range
			s.Exp = -int64(x.RawExp) + int64(rapid.IntRange(-50, 50).Draw(t, "exp"))
		default:
			s.Exp = rapid.Int64Range(-1<<33, 1<<33).Draw(t, "exp")
			if rapid.IntRange(0, 2).Draw(t, "exp64") == 0 {
				s.Exp = rapid.SampledFrom([]int64{math.MaxInt64, math.MinInt64, math.MaxInt64 - 7, math.MinInt64 + 7, 1 << 62, -1 << 62}).Draw(t, "expedge")
			}
		}
	case "setint":
		d := h.GenDigits(t, "i", o.MaxIntDigit)
		if rapid.IntRange(0, 9).Draw(t, "i0") == 0 {
			d = "0"
		}
		if rapid.Bool().Draw(t, "ineg") {
			d = "-" + d
		}
		s.I = d
	case "setint64":
		s.I = big.NewInt(rapid.Int64().Draw(t, "i")).String()
		if rapid.IntRange(0, 4).Draw(t, "small") == 0 {
			s.I = big.NewInt(int64(rapid.IntRange(-1000, 1000).Draw(t, "ismall"))).String()
		}
	case "setuint64":
		s.I = new(big.Int).SetUint64(rapid.Uint64().Draw(t, "u")).String()
	case "setrat":
		s.I = h.GenDigits(t, "num", 40)
		if rapid.IntRange(0, 9).Draw(t, "n0") == 0 {
			s.I = "0"
		}
		if rapid.Bool().Draw(t, "nneg") {
			s.I = "-" + s.I
		}
		s.Den = rapid.SampledFrom([]string{"1", "2", "3", "7", "8", "10", "125", "999", "1000000007"}).Draw(t, "den")
		if rapid.Bool().Draw(t, "dgen") {
			s.Den = h.GenDigits(t, "den.d", 30)
		}
		if rapid.IntRange(0, 3).Draw(t, "dpow") == 0 {
			// denominators longer than the numerator and than the default precision: powers of ten, two and five
			k := rapid.IntRange(1, 70).Draw(t, "dpowk")
			base := rapid.SampledFrom([]int64{10, 10, 2, 5}).Draw(t, "dpowb")
			if base == 2 {
				k *= 3
			}
			s.Den = new(big.Int).Exp(big.NewInt(base), big.NewInt(int64(k)), nil).String()
			if rapid.Bool().Draw(t, "dpown1") {
				s.I = rapid.SampledFrom([]string{"1", "-1", "3", "7", "123456789"}).Draw(t, "dpown")
			}
		}
		if zp > uint(o.MaxPrec) {
			s.Op, s.P, s.I, s.Den = "setprec", uint(rapid.IntRange(1, o.MaxPrec).Draw(t, "cap")), "", ""
		}
	case "setfloat64":
		s.F = rapid.Uint64().Draw(t, "f")
		switch rapid.IntRange(0, 5).Draw(t, "f.cls") {
		case 0:
			s.F = rapid.SampledFrom([]uint64{0, 1 << 63, math.Float64bits(math.Inf(1)), math.Float64bits(math.Inf(-1)), math.Float64bits(math.NaN()), 1, math.Float64bits(math.MaxFloat64)}).Draw(t, "f.edge")
		case 1:
			s.F = math.Float64bits(float64(rapid.IntRange(-100000, 100000).Draw(t, "f.int")) / 8)
		}
		if zp > uint(o.MaxPrec) {
			s.Op, s.P, s.F = "setprec", uint(rapid.IntRange(1, o.MaxPrec).Draw(t, "cap")), 0
		}
	case "setfloat":
		s.FK = rapid.SampledFrom([]string{"fin", "fin", "fin", "fin", "+inf", "-inf", "+0", "-0"}).Draw(t, "fk")
		s.F = rapid.Uint64().Draw(t, "fm")
		s.Exp = int64(rapid.IntRange(-2000, 2000).Draw(t, "fe"))
		s.FP = uint(rapid.IntRange(1, 200).Draw(t, "fp"))
		if zp > uint(o.MaxPrec) {
			s.Op, s.P, s.FK, s.F, s.Exp, s.FP = "setprec", uint(rapid.IntRange(1, o.MaxPrec).Draw(t, "cap")), "", 0, 0, 0
		}
	case "parse", "setstring", "unmarshaltext", "scan":
		if rapid.IntRange(0, 4).Draw(t, "lit.cls") == 0 {
			s.S = rapid.SampledFrom([]string{"Inf", "-Inf", "+inf", "0x1.8p3", "0b1011e2", "0o17", "1_000.5e-3", "0x_Ap-2", ".5", "5.", "1e", "_1", "1__0", "0x", "", "-", "1e99999999999", "1e-2147483648", "9e2147483646", "0.1e2147483647", "0x1p-1074", "0b.1p-10", "<nil>", "NaN", "null", "--Inf", "0x12345p3000000000", "123456789012345678901234567890p-7200000000", "0x.123456789abcdefp-9223372036854775808", "1.5p2147483648"}).Draw(t, "lit.fixed")
		} else {
			s.S = h.GenDecLiteral(t, "lit", 80, true).S
		}
		if s.Op == "parse" {
			s.B = rapid.SampledFrom([]int{0, 0, 0, 10, 2, 8, 16}).Draw(t, "base")
		}
		if s.Op == "scan" && s.S == "" {
			s.S = "0"
		}
		if zp > uint(o.MaxPrec) {
			s.Op, s.P, s.S, s.B = "setprec", uint(rapid.IntRange(1, o.MaxPrec).Draw(t, "cap")), "", 0
		}
	case "gob":
		s.A = []int{v("x")}
		if o.Mutations && rapid.IntRange(0, 2).Draw(t, "mut") == 0 {
			kind := rapid.IntRange(0, 6).Draw(t, "mut.kind")
			val := rapid.IntRange(0, 255).Draw(t, "mut.val")
			switch kind {
			case 4:
				val = rapid.SampledFrom([]int{0, 1, 2, 18, 19, 20, 37, 38, 39, 100, 1 << 20, math.MaxUint32, math.MaxUint32 - 5}).Draw(t, "mut.prec")
			case 5:
				val = rapid.SampledFrom([]int{0, 1, math.MaxInt32, math.MinInt32, -1, 1 << 20}).Draw(t, "mut.exp")
			}
			s.Mut = []int{kind, rapid.IntRange(0, 400).Draw(t, "mut.pos"), val}
		}
	case "setbitsexp":
		nw := rapid.IntRange(0, 5).Draw(t, "w.n")
		ws := h.GenWords(t, "w", nw+1)[:nw]
		// little endian; leading (top) zero words and low zero words occur through the patterns
		s.W = make([]uint64, nw)
		for i := range ws {
			s.W[nw-1-i] = ws[i]
		}
		s.Exp = h.GenExp(t, "w.exp")
		if rapid.IntRange(0, 6).Draw(t, "w.wild") == 0 {
			s.Exp = rapid.Int64().Draw(t, "w.exp64")
		}
	case "setbitsexp-own":
		s.Exp = h.GenExp(t, "w.exp")
	case "setbitsexp-edit":
		// the receiver's own slice with its top word overwritten in place (a value below 10^18, or zero): same slice
		// header, different contents
		s.Exp = h.GenExp(t, "w.exp")
		s.W = []uint64{rapid.SampledFrom([]uint64{0, 1, 12345, h.Base/10 - 1, 999999999999, h.Base / 100}).Draw(t, "w.top")}
	}
	return s
}

var accessorOps = []string{"ro:int", "ro:int", "ro:int-into", "ro:int64", "ro:uint64", "ro:rat", "ro:rat-into", "ro:float64", "ro:float32", "ro:float", "ro:text", "ro:text", "ro:append",
	"ro:format", "ro:string", "ro:gobenc", "ro:marshaltext", "ro:marshaljson", "ro:cmp", "ro:preds"}

// drawAccessor draws a read-only step (conversions, formatting, encoding, comparison, predicates). Conversions whose
// cost is linear in the exponent or the precision are only drawn for moderate operands.
func drawAccessor(t *rapid.T, snaps []h.Snap, s Step) Step {
	n := len(snaps)
	s.A = []int{rapid.IntRange(0, n-1).Draw(t, "ro.x")}
	x := snaps[s.A[0]]
	s.Op = rapid.SampledFrom(accessorOps).Draw(t, "ro.op")
	moderate := x.Form != model.Finite || x.RawExp <= 3000 && x.RawExp >= -3000
	if !moderate {
		switch s.Op {
		case "ro:int", "ro:int-into", "ro:rat", "ro:rat-into", "ro:float", "ro:int64", "ro:uint64":
			s.Op = "ro:preds"
		}
	}
	switch s.Op {
	case "ro:float":
		s.FP = uint(rapid.SampledFrom([]int{1, 24, 53, 64, 100, 200}).Draw(t, "ro.fp"))
	case "ro:text", "ro:append":
		verbs := "eEgGpb"
		if moderate {
			verbs += "ff"
		}
		if x.Prec > 5000 {
			verbs = "eEgGp"
		}
		s.S = string(verbs[rapid.IntRange(0, len(verbs)-1).Draw(t, "ro.verb")])
		s.Exp = int64(rapid.IntRange(-1, 40).Draw(t, "ro.prec"))
	case "ro:format":
		verbs := "eEgGv"
		if moderate {
			verbs += "fF"
		}
		s.S = "%" + rapid.SampledFrom([]string{"", "+", " ", "-", "0", "+0", "-0"}).Draw(t, "ro.flags") + rapid.SampledFrom([]string{"", "12", "30"}).Draw(t, "ro.width") +
			rapid.SampledFrom([]string{"", ".0", ".3", ".20"}).Draw(t, "ro.fprec") + string(verbs[rapid.IntRange(0, len(verbs)-1).Draw(t, "ro.fverb")])
	case "ro:cmp":
		s.A = append(s.A, rapid.IntRange(0, n-1).Draw(t, "ro.y"))
	}
	return s
}
