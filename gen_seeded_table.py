#!/usr/bin/env python3
"""Rewrites the table of seeded changes in DESIGN.md section 11 from seeded/*/meta.json."""
import json, os, re
rows = []
for d in sorted(os.listdir("/verif/seeded")):
    mp = os.path.join("/verif/seeded", d, "meta.json")
    if not os.path.exists(mp):
        continue
    m = json.load(open(mp))
    ch = m.get("checks_run_against_it", {})
    caught = [k for k, v in ch.items() if v.get("caught")]
    missed = [k for k, v in ch.items() if not v.get("caught")]
    own = m.get("breaks_property")
    caught.sort(key=lambda k: (k != own, k))
    cell = ", ".join(caught) if caught else "**not caught**"
    if m.get("out_of_scope"):
        cell = "out of scope: " + m["out_of_scope"].split(";")[0].split("(DESIGN")[0].strip()
        missed = []
    if missed:
        cell += " (not by: %s)" % ", ".join(sorted(missed))
    if m.get("base_revision"):
        cell += " [against %s]" % m["base_revision"].split(" ")[0]
    esc = lambda s: (s or "").replace("|", "\\|").replace("\n", " ")
    rows.append("| %s | %s | %s | %s |" % (d, esc(m.get("change")), esc(m.get("needs_to_manifest")), cell))
s = open("/verif/DESIGN.md").read()
hdr = "| seeded change | what was changed | what it needs to manifest | caught by (quick tier, seed 1) |\n|---|---|---|---|\n"
i = s.index(hdr)
j = s.index("\n\n", i)
s = s[:i] + hdr + "\n".join(rows) + s[j:]
open("/verif/DESIGN.md", "w").write(s)
print(len(rows), "rows")
