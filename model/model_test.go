package model

import (
	"math/big"
	"testing"
)

// addFar must agree with the plain big.Int addition (cross-check of the reference model's own fast path).
func TestAddFarAgainstBigInt(t *testing.T) {
	vals := []string{"1", "5", "10", "999", "1000", "12345", "100001", "7"}
	for _, ad := range vals {
		for _, bd := range vals {
			for _, gap := range []int64{1000, 1001, 1500} {
				for _, an := range []bool{false, true} {
					for _, bn := range []bool{false, true} {
						a := MkFinite(an, ad, 3)
						b := MkFinite(bn, bd, a.Exp-int64(len(a.Digits))-gap)
						got, ok := addFar(a, b)
						if !ok {
							t.Fatalf("addFar declined gap %d", gap)
						}
						// plain computation
						ca, ea := a.Coeff()
						cb, eb := b.Coeff()
						if a.Neg {
							ca.Neg(ca)
						}
						if b.Neg {
							cb.Neg(cb)
						}
						ca.Mul(ca, new(big.Int).Exp(big.NewInt(10), big.NewInt(ea-eb), nil))
						ca.Add(ca, cb)
						want := FromInt(ca, eb)
						if !got.Val.Equal(want) {
							t.Fatalf("%v + %v: addFar %v, big.Int %v", a, b, got.Val, want)
						}
					}
				}
			}
		}
	}
}

// The sticky form used for gaps beyond what can be spelled out must round like the spelled-out sum.
func TestAddFarStickyAgainstAddFar(t *testing.T) {
	vals := []string{"1", "5", "10", "999", "1000", "12345", "100001", "7", "95", "949999", "5000000001", "99999999999999999999"}
	n := 0
	for _, ad := range vals {
		for _, bd := range vals {
			for _, gap := range []int64{1000, 1001, 1500} {
				for _, an := range []bool{false, true} {
					for _, bn := range []bool{false, true} {
						a := MkFinite(an, ad, 3)
						b := MkFinite(bn, bd, a.Exp-int64(len(a.Digits))-gap)
						full, _ := addFar(a, b)
						for _, prec := range []uint64{1, 2, 3, 4, 5, 6, 7, 10, 19, 20, 21, 25, 60, 900} {
							st, ok := addFarSticky(a, b, prec)
							if !ok {
								t.Fatalf("addFarSticky declined gap %d prec %d", gap, prec)
							}
							for m := Mode(0); m < 6; m++ {
								wv, wa := Round(full, prec, m)
								gv, ga := Round(st, prec, m)
								if !gv.Equal(wv) || ga != wa {
									t.Fatalf("%v + %v at prec %d mode %v: sticky form %v %v, spelled out %v %v", a, b, prec, m, gv, ga, wv, wa)
								}
								n++
							}
						}
					}
				}
			}
		}
	}
	t.Logf("%d comparisons", n)
}
