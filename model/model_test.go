package model

import (
	"math/big"
	"testing"
)

// addFar must agree with the plain big.Int addition (cross-check of the reference model's own fast path).
func TestAddFarAgainstBigInt(t *testing.T) {
	vals := []string{"1", "5", "10", "999", "1000", "12345", "100001", "7"}
	for _, ad := range vals {
		for _, bd := range vals {
			for _, gap := range []int64{1000, 1001, 1500} {
				for _, an := range []bool{false, true} {
					for _, bn := range []bool{false, true} {
						a := MkFinite(an, ad, 3)
						b := MkFinite(bn, bd, a.Exp-int64(len(a.Digits))-gap)
						got, ok := addFar(a, b)
						if !ok {
							t.Fatalf("addFar declined gap %d", gap)
						}
						// plain computation
						ca, ea := a.Coeff()
						cb, eb := b.Coeff()
						if a.Neg {
							ca.Neg(ca)
						}
						if b.Neg {
							cb.Neg(cb)
						}
						ca.Mul(ca, new(big.Int).Exp(big.NewInt(10), big.NewInt(ea-eb), nil))
						ca.Add(ca, cb)
						want := FromInt(ca, eb)
						if !got.Val.Equal(want) {
							t.Fatalf("%v + %v: addFar %v, big.Int %v", a, b, got.Val, want)
						}
					}
				}
			}
		}
	}
}
