package model

import (
	"strconv"
	"strings"
)

// RoundAt rounds finite v at an absolute number of kept significant digits n,
// which may be <= 0 (rounding position at or above the leading digit): the
// result is then 0 or one unit of that position. No range rule is applied
// (formatting works on an unbounded exponent).
func RoundAt(v Val, n int64, mode Mode) Val {
	if v.Form != Finite {
		return v
	}
	if n >= int64(len(v.Digits)) {
		return v
	}
	if n >= 1 {
		// temporarily lift the exponent into a safe zone: Round's range rule must not fire
		w := v
		w.Exp = 0
		r, _ := Round(X{Val: w}, uint64(n), mode)
		if r.Form == Finite {
			r.Exp += v.Exp
		}
		return r
	}
	// n <= 0: kept part is 0; rounding digit is the leading digit iff n == 0
	rd := byte('0')
	st := true
	if n == 0 {
		rd = v.Digits[0]
		st = len(v.Digits) > 1
	}
	var inc bool
	switch mode {
	case ToZero:
	case AwayFromZero:
		inc = true
	case ToNegativeInf:
		inc = v.Neg
	case ToPositiveInf:
		inc = !v.Neg
	case ToNearestEven:
		inc = rd > '5' || rd == '5' && st
	case ToNearestAway:
		inc = rd >= '5'
	}
	if !inc {
		return MkZero(v.Neg)
	}
	// one unit at position 10^(Exp-n): 0.1 × 10^(Exp-n+1)
	return Val{Form: Finite, Neg: v.Neg, Digits: "1", Exp: v.Exp - n + 1}
}

// Format is the reference formatter: strconv.FormatFloat's layout rules for
// 'e','E','f','g','G' applied to v rounded once under mode at the requested
// position (prec < 0: all digits of v), and the documented 'p' and 'b' forms
// (vprec is the Decimal's precision, used by 'b').
func Format(v Val, mode Mode, f byte, prec int, vprec uint) string {
	sign := ""
	if v.Neg {
		sign = "-"
	}
	if v.Form == Inf {
		if v.Neg {
			return "-Inf"
		}
		return "+Inf"
	}
	switch f {
	case 'p':
		if v.Form == Zero {
			return sign + "0"
		}
		s := sign + "0." + v.Digits + "e"
		if v.Exp >= 0 {
			s += "+"
		}
		return s + strconv.FormatInt(v.Exp, 10)
	case 'b':
		if v.Form == Zero {
			return sign + "0"
		}
		d := v.Digits
		if uint(len(d)) > vprec {
			d = d[:vprec]
		}
		d += strings.Repeat("0", int(vprec)-len(d))
		e := v.Exp - int64(vprec)
		s := sign + d + "e"
		if e >= 0 {
			s += "+"
		}
		return s + strconv.FormatInt(e, 10)
	}
	shortest := prec < 0
	digs, dp := "", int64(0) // value = 0.digs × 10^dp, digs without trailing zeros
	load := func(w Val) {
		if w.Form == Finite {
			digs, dp = w.Digits, w.Exp
		} else {
			digs, dp = "", 0
		}
	}
	load(v)
	if shortest {
		switch f {
		case 'e', 'E':
			prec = len(digs) - 1
			if prec < 0 {
				prec = 0
			}
		case 'f':
			prec = len(digs) - int(dp)
			if prec < 0 {
				prec = 0
			}
		case 'g', 'G':
			prec = len(digs)
		}
	} else if v.Form == Finite {
		switch f {
		case 'e', 'E':
			load(RoundAt(v, int64(prec)+1, mode))
		case 'f':
			load(RoundAt(v, v.Exp+int64(prec), mode))
		case 'g', 'G':
			if prec == 0 {
				prec = 1
			}
			load(RoundAt(v, int64(prec), mode))
		}
	} else if (f == 'g' || f == 'G') && prec == 0 {
		prec = 1
	}
	nd := len(digs)
	fmtE := func(prec int, ec byte) string {
		var b strings.Builder
		b.WriteString(sign)
		if nd > 0 {
			b.WriteByte(digs[0])
		} else {
			b.WriteByte('0')
		}
		if prec > 0 {
			b.WriteByte('.')
			i := 1
			m := nd
			if prec+1 < m {
				m = prec + 1
			}
			if i < m {
				b.WriteString(digs[i:m])
				i = m
			}
			for ; i <= prec; i++ {
				b.WriteByte('0')
			}
		}
		b.WriteByte(ec)
		exp := dp - 1
		if nd == 0 {
			exp = 0
		}
		if exp < 0 {
			b.WriteByte('-')
			exp = -exp
		} else {
			b.WriteByte('+')
		}
		if exp < 10 {
			b.WriteByte('0')
		}
		b.WriteString(strconv.FormatInt(exp, 10))
		return b.String()
	}
	fmtF := func(prec int) string {
		var b strings.Builder
		b.WriteString(sign)
		if dp > 0 {
			m := int64(nd)
			if dp < m {
				m = dp
			}
			b.WriteString(digs[:m])
			for ; m < dp; m++ {
				b.WriteByte('0')
			}
		} else {
			b.WriteByte('0')
		}
		if prec > 0 {
			b.WriteByte('.')
			for i := 0; i < prec; i++ {
				ch := byte('0')
				if j := dp + int64(i); 0 <= j && j < int64(nd) {
					ch = digs[j]
				}
				b.WriteByte(ch)
			}
		}
		return b.String()
	}
	switch f {
	case 'e', 'E':
		return fmtE(prec, f)
	case 'f':
		return fmtF(prec)
	case 'g', 'G':
		eprec := prec
		if eprec > nd && int64(nd) >= dp {
			eprec = nd
		}
		if shortest {
			eprec = 6
		}
		exp := dp - 1
		if exp < -4 || exp >= int64(eprec) {
			if prec > nd {
				prec = nd
			}
			return fmtE(prec-1, f+'e'-'g')
		}
		if int64(prec) > dp {
			prec = nd
		}
		p := int64(prec) - dp
		if p < 0 {
			p = 0
		}
		return fmtF(int(p))
	}
	return "%" + string(f)
}

// FmtLayout applies the fmt package's sign, width and flag rules for
// floating-point verbs to a body produced by Format (which starts with '-' for
// negative values and "+Inf" for positive infinity).
func FmtLayout(body string, plus, space, zero, minus bool, width int) string {
	sign := ""
	switch {
	case strings.HasPrefix(body, "-"):
		sign, body = "-", body[1:]
	case strings.HasPrefix(body, "+"):
		sign, body = "+", body[1:]
		if space && !plus {
			sign = " "
		}
	case plus:
		sign = "+"
	case space:
		sign = " "
	}
	isInf := body == "Inf"
	pad := width - len(sign) - len(body)
	if pad < 0 {
		pad = 0
	}
	switch {
	case minus:
		return sign + body + strings.Repeat(" ", pad)
	case zero && !isInf:
		return sign + strings.Repeat("0", pad) + body
	}
	return strings.Repeat(" ", pad) + sign + body
}
