// Package model is the reference model the property checks compare
// db47h/decimal against. It is written from the IEEE-754 definitions and the
// property texts, uses math/big integers and decimal digit strings only, and
// never looks at the implementation under test.
//
// A value is ±0, ±Inf or ±0.D × 10^E where D is a digit string without
// leading or trailing zeros. No power of ten larger than the operands'
// digit counts plus the requested precision is ever materialised: exponents
// are carried symbolically.
package model

import (
	"fmt"
	"math/big"
	"strings"
)

type Form uint8

const (
	Zero Form = iota
	Finite
	Inf
)

// Mode mirrors decimal.RoundingMode (same numbering, checked by the harness).
type Mode uint8

const (
	ToNearestEven Mode = iota
	ToNearestAway
	ToZero
	AwayFromZero
	ToNegativeInf
	ToPositiveInf
)

var ModeNames = [...]string{"ToNearestEven", "ToNearestAway", "ToZero", "AwayFromZero", "ToNegativeInf", "ToPositiveInf"}

func (m Mode) String() string {
	if int(m) < len(ModeNames) {
		return ModeNames[m]
	}
	return fmt.Sprintf("Mode(%d)", m)
}

type Acc int8

const (
	Below Acc = -1
	Exact Acc = 0
	Above Acc = +1
)

func (a Acc) String() string {
	switch a {
	case Below:
		return "Below"
	case Exact:
		return "Exact"
	case Above:
		return "Above"
	}
	return fmt.Sprintf("Acc(%d)", a)
}

const (
	MaxExp  = 1<<31 - 1
	MinExp  = -1 << 31
	MaxPrec = 1<<32 - 1
)

// Val is an exact extended real number: ±0, ±Inf or ±0.Digits × 10^Exp.
type Val struct {
	Form   Form
	Neg    bool
	Digits string // significant digits, no leading or trailing '0'; "" unless Finite
	Exp    int64  // value = 0.Digits × 10^Exp (so 10^(Exp-1) <= |value| < 10^Exp)
}

// X is an exact intermediate result: Val, possibly with a non-zero tail that
// is known only to exist (Sticky): the true magnitude lies strictly between
// 0.Digits×10^Exp and the next value with len(Digits) digits.
type X struct {
	Val
	Sticky bool
}

func (v Val) String() string {
	s := ""
	if v.Neg {
		s = "-"
	}
	switch v.Form {
	case Zero:
		return s + "0"
	case Inf:
		return s + "Inf"
	}
	d := v.Digits
	if len(d) > 60 {
		d = d[:28] + fmt.Sprintf("..(%d)..", len(d)) + d[len(d)-28:]
	}
	return fmt.Sprintf("%s0.%se%d", s, d, v.Exp)
}

func (x X) String() string {
	if x.Sticky {
		return x.Val.String() + "+sticky"
	}
	return x.Val.String()
}

func MkZero(neg bool) Val { return Val{Form: Zero, Neg: neg} }
func MkInf(neg bool) Val  { return Val{Form: Inf, Neg: neg} }

// MkFinite builds a finite value 0.digits × 10^exp from an arbitrary digit
// string (leading/trailing zeros allowed; all zeros gives ±0).
func MkFinite(neg bool, digits string, exp int64) Val {
	lead := 0
	for lead < len(digits) && digits[lead] == '0' {
		lead++
	}
	digits = digits[lead:]
	exp -= int64(lead)
	digits = strings.TrimRight(digits, "0")
	if digits == "" {
		return MkZero(neg)
	}
	return Val{Form: Finite, Neg: neg, Digits: digits, Exp: exp}
}

// FromInt returns the value c × 10^e10.
func FromInt(c *big.Int, e10 int64) Val {
	if c.Sign() == 0 {
		return MkZero(false)
	}
	s := new(big.Int).Abs(c).String()
	return MkFinite(c.Sign() < 0, s, e10+int64(len(s)))
}

// Coeff returns the integer coefficient c and exponent e with |v| = c × 10^e.
func (v Val) Coeff() (*big.Int, int64) {
	if v.Form != Finite {
		return new(big.Int), 0
	}
	c, ok := new(big.Int).SetString(v.Digits, 10)
	if !ok {
		panic("model: bad digits " + v.Digits)
	}
	return c, v.Exp - int64(len(v.Digits))
}

func (v Val) IsFinite() bool { return v.Form == Finite }

func (v Val) Negate() Val { v.Neg = !v.Neg; return v }
func (v Val) AbsVal() Val { v.Neg = false; return v }

// Sign returns -1, 0, +1.
func (v Val) Sign() int {
	if v.Form == Zero {
		return 0
	}
	if v.Neg {
		return -1
	}
	return 1
}

// Equal reports structural (= numerical, signed-zero-sensitive) equality.
func (v Val) Equal(w Val) bool {
	return v.Form == w.Form && v.Neg == w.Neg && (v.Form != Finite || v.Digits == w.Digits && v.Exp == w.Exp)
}

func ord(v Val) int {
	o := 0
	switch v.Form {
	case Finite:
		o = 1
	case Inf:
		o = 2
	}
	if v.Neg {
		o = -o
	}
	return o
}

// CmpMag compares |a| and |b| for finite a, b without materialising powers of ten.
func CmpMag(a, b Val) int {
	switch {
	case a.Exp < b.Exp:
		return -1
	case a.Exp > b.Exp:
		return 1
	}
	// same decade: lexicographic comparison of the digit strings is numeric
	// comparison of 0.D (shorter string = padded with zeros)
	return strings.Compare(a.Digits, b.Digits)
}

// Cmp is the order of the extended reals with -0 == +0.
func Cmp(a, b Val) int {
	oa, ob := ord(a), ord(b)
	switch {
	case oa < ob:
		return -1
	case oa > ob:
		return 1
	}
	switch oa {
	case 1:
		return CmpMag(a, b)
	case -1:
		return CmpMag(b, a)
	}
	return 0
}

// pow10 returns 10^n for n >= 0 (n is always bounded by digit counts here).
func pow10(n int64) *big.Int {
	if n < 0 {
		panic("model: negative power")
	}
	if n > 50_000_000 {
		panic(fmt.Sprintf("model: refusing to materialise 10^%d", n))
	}
	return new(big.Int).Exp(big.NewInt(10), big.NewInt(n), nil)
}

// RangeRule applies the exponent range rule and rounding: the exact result x
// is rounded once to prec >= 1 significant digits under mode; a result whose
// exact magnitude is below 10^(MinExp-1) becomes a zero of its sign and one
// whose rounded magnitude reaches 10^MaxExp becomes an infinity of its sign.
// acc is the sign of (returned - exact).
func Round(x X, prec uint64, mode Mode) (Val, Acc) {
	if x.Form != Finite {
		if x.Sticky {
			panic("model: sticky on non-finite")
		}
		return x.Val, Exact
	}
	if prec == 0 {
		panic("model: Round with precision 0")
	}
	below := Below // accuracy when |stored| < |exact|
	above := Above
	if x.Neg {
		below, above = Above, Below
	}
	if x.Exp < MinExp {
		return MkZero(x.Neg), below
	}
	if x.Exp > MaxExp {
		return MkInf(x.Neg), above
	}
	n := uint64(len(x.Digits))
	if n <= prec && !x.Sticky {
		return x.Val, Exact
	}
	var keep string
	rd := byte('0')
	st := x.Sticky
	if n <= prec {
		keep = x.Digits // conceptually padded with zeros up to prec digits
	} else {
		keep = x.Digits[:prec]
		rd = x.Digits[prec]
		if n > prec+1 {
			st = true // Digits has no trailing zero, so the tail is non-zero
		}
	}
	if rd == '0' && !st {
		panic("model: unreachable exact case")
	}
	lastOdd := false
	if uint64(len(keep)) == prec {
		lastOdd = (keep[len(keep)-1]-'0')&1 == 1
	}
	var inc bool
	switch mode {
	case ToZero:
	case AwayFromZero:
		inc = true
	case ToNegativeInf:
		inc = x.Neg
	case ToPositiveInf:
		inc = !x.Neg
	case ToNearestEven:
		inc = rd > '5' || rd == '5' && (st || lastOdd)
	case ToNearestAway:
		inc = rd >= '5'
	default:
		panic("model: bad mode")
	}
	if !inc {
		return MkFinite(x.Neg, keep, x.Exp), below
	}
	// add one unit in the prec-th digit
	pad := int(prec) - len(keep)
	b := []byte(keep)
	exp := x.Exp
	if pad > 0 {
		// keep·000…0 + 1 unit: the unit lands beyond keep
		if prec > 1<<26 {
			// the digit string would be huge; the value is keep followed by
			// zeros and a final 1: refuse (generators keep prec-len small
			// whenever Sticky is set)
			panic("model: increment at huge precision")
		}
		b = append(b, []byte(strings.Repeat("0", pad))...)
	}
	i := len(b) - 1
	for i >= 0 && b[i] == '9' {
		b[i] = '0'
		i--
	}
	if i >= 0 {
		b[i]++
	} else {
		b = append([]byte{'1'}, b...)
		exp++
		if exp > MaxExp {
			return MkInf(x.Neg), above
		}
	}
	return MkFinite(x.Neg, string(b), exp), above
}

// AddX returns the exact sum of two finite-or-zero values. The caller is
// responsible for bounding the exponent gap. The sign of an exactly zero
// result is left positive; use SumZeroSign for the IEEE rule.
func AddX(a, b Val) X {
	if a.Form == Inf || b.Form == Inf {
		panic("model: AddX on infinities")
	}
	if a.Form == Zero {
		return X{Val: b}
	}
	if b.Form == Zero {
		return X{Val: a}
	}
	if x, ok := addFar(a, b); ok {
		return x
	}
	ca, ea := a.Coeff()
	cb, eb := b.Coeff()
	if a.Neg {
		ca.Neg(ca)
	}
	if b.Neg {
		cb.Neg(cb)
	}
	e := ea
	if eb < ea {
		ca.Mul(ca, pow10(ea-eb))
		e = eb
	} else if ea < eb {
		cb.Mul(cb, pow10(eb-ea))
	}
	ca.Add(ca, cb)
	return X{Val: FromInt(ca, e)}
}

// addFar computes a+b exactly by digit-string surgery when one addend lies entirely (and far) below the
// other one's last digit, without materialising a power of ten of the size of the gap.
func addFar(a, b Val) (X, bool) {
	if CmpMag(a, b) < 0 {
		a, b = b, a
	}
	// positions: a occupies decimal positions [a.Exp-len(a.Digits), a.Exp), b occupies [b.Exp-len(b.Digits), b.Exp)
	aLow := a.Exp - int64(len(a.Digits))
	gap := aLow - b.Exp // number of zero digits between a's last digit and b's first digit
	if gap < 1000 {
		return X{}, false
	}
	if gap > 1<<28 {
		panic(fmt.Sprintf("model: refusing an exponent gap of %d digits", gap))
	}
	lb := len(b.Digits)
	if a.Neg == b.Neg {
		d := a.Digits + strings.Repeat("0", int(gap)) + b.Digits
		return X{Val: Val{Form: Finite, Neg: a.Neg, Digits: d, Exp: a.Exp}}, true
	}
	// |a| - |b| = (A-1) · 10^k + (10^k - B) with k = gap + len(B)
	A, _ := new(big.Int).SetString(a.Digits, 10)
	A.Sub(A, big.NewInt(1))
	B, _ := new(big.Int).SetString(b.Digits, 10)
	comp := new(big.Int).Sub(pow10(int64(lb)), B) // 10^len(B) - B, has at most len(B) digits, not zero
	cs := comp.String()
	cs = strings.Repeat("0", lb-len(cs)) + cs
	as := A.String()
	exp := a.Exp
	var d string
	if A.Sign() == 0 {
		// a was a power of ten with the single digit 1: the result starts with the nines
		d = strings.Repeat("9", int(gap)) + cs
		exp = aLow
	} else {
		if len(as) < len(a.Digits) {
			exp -= int64(len(a.Digits) - len(as)) // A-1 lost a digit (A was 10^j)
		}
		d = as + strings.Repeat("9", int(gap)) + cs
	}
	return X{Val: MkFinite(a.Neg, d, exp)}, true
}

// addFarSticky is addFar for gaps too large to spell out (up to the whole exponent range): the sum keeps
// enough leading digits for a rounding to prec digits and folds the rest, which is known to be non-zero, into
// the sticky flag. ok is false when the rounding position is not safely above the smaller addend.
func addFarSticky(a, b Val, prec uint64) (X, bool) {
	if a.Form != Finite || b.Form != Finite {
		return X{}, false
	}
	if CmpMag(a, b) < 0 {
		a, b = b, a
	}
	aLow := a.Exp - int64(len(a.Digits))
	gap := aLow - b.Exp
	if gap < 1000 || uint64(gap) <= prec+10 {
		return X{}, false
	}
	k := int64(prec) + 4 - int64(len(a.Digits)) // digits kept below a's last digit
	if k < 2 {
		k = 2
	}
	if k >= gap {
		return X{}, false
	}
	if a.Neg == b.Neg {
		return X{Val: Val{Form: Finite, Neg: a.Neg, Digits: a.Digits + strings.Repeat("0", int(k)), Exp: a.Exp}, Sticky: true}, true
	}
	// |a| - |b| = (A-1) 99...9 (10^len(B) - B): cut inside the run of nines, the rest is non-zero
	A, _ := new(big.Int).SetString(a.Digits, 10)
	A.Sub(A, big.NewInt(1))
	if A.Sign() == 0 {
		k = int64(prec) + 4
		if k >= gap {
			return X{}, false
		}
		return X{Val: Val{Form: Finite, Neg: a.Neg, Digits: strings.Repeat("9", int(k)), Exp: aLow}, Sticky: true}, true
	}
	as := A.String()
	exp := a.Exp
	if len(as) < len(a.Digits) {
		exp -= int64(len(a.Digits) - len(as))
		k++
		if k >= gap {
			return X{}, false
		}
	}
	return X{Val: Val{Form: Finite, Neg: a.Neg, Digits: as + strings.Repeat("9", int(k)), Exp: exp}, Sticky: true}, true
}

// SumZeroSign is the IEEE 754-2008 §6.3 sign of an exactly zero sum whose
// addends have the signs an and bn.
func SumZeroSign(an, bn bool, mode Mode) bool {
	if an == bn {
		return an
	}
	return mode == ToNegativeInf
}

func MulX(a, b Val) X {
	if a.Form != Finite || b.Form != Finite {
		panic("model: MulX needs finite operands")
	}
	ca, ea := a.Coeff()
	cb, eb := b.Coeff()
	ca.Mul(ca, cb)
	v := FromInt(ca, ea+eb)
	v.Neg = a.Neg != b.Neg
	return X{Val: v}
}

// QuoX returns a/b to at least digits+2 significant digits plus sticky.
func QuoX(a, b Val, digits uint64) X {
	if a.Form != Finite || b.Form != Finite {
		panic("model: QuoX needs finite operands")
	}
	ca, ea := a.Coeff()
	cb, eb := b.Coeff()
	k := int64(digits) + 3 + int64(len(b.Digits)) - int64(len(a.Digits))
	if k < 0 {
		k = 0
	}
	ca.Mul(ca, pow10(k))
	q, r := new(big.Int).QuoRem(ca, cb, new(big.Int))
	if q.Sign() == 0 {
		panic("model: QuoX zero quotient")
	}
	v := FromInt(q, ea-eb-k)
	v.Neg = a.Neg != b.Neg
	return X{Val: v, Sticky: r.Sign() != 0}
}

// SqrtX returns sqrt(a) for finite a > 0 to at least digits+2 significant digits plus sticky.
func SqrtX(a Val, digits uint64) X {
	if a.Form != Finite || a.Neg {
		panic("model: SqrtX needs positive finite operand")
	}
	c, e := a.Coeff()
	// scale so that the exponent is even and the root has enough digits
	k := 2*(int64(digits)+3) - int64(len(a.Digits))
	if k < 0 {
		k = 0
	}
	if (e-k)%2 != 0 {
		k++
	}
	c.Mul(c, pow10(k))
	s := new(big.Int).Sqrt(c)
	rem := new(big.Int).Mul(s, s)
	rem.Sub(c, rem)
	v := FromInt(s, (e-k)/2)
	return X{Val: v, Sticky: rem.Sign() != 0}
}

// ---- IEEE-754 operation models (specials included) -------------------------

// Res is the outcome of one operation in the model.
type Res struct {
	NaN bool // invalid operation: the implementation must panic with ErrNaN
	V   Val
	Acc Acc
}

func (r Res) String() string {
	if r.NaN {
		return "NaN"
	}
	return fmt.Sprintf("%v (%v)", r.V, r.Acc)
}

// Sum models x+y rounded to (prec, mode), all operand classes.
func Sum(x, y Val, prec uint64, mode Mode) Res {
	switch {
	case x.Form == Inf && y.Form == Inf:
		if x.Neg != y.Neg {
			return Res{NaN: true}
		}
		return Res{V: x}
	case x.Form == Inf:
		return Res{V: x}
	case y.Form == Inf:
		return Res{V: y}
	}
	s := AddXP(x, y, prec)
	if s.Form == Zero {
		s.Neg = SumZeroSign(x.Neg, y.Neg, mode)
		return Res{V: s.Val}
	}
	v, a := Round(s, prec, mode)
	return Res{V: v, Acc: a}
}

// farStickyFrom is the gap (in digits) from which Sum uses the sticky form instead of spelling the gap out.
const farStickyFrom = 1 << 20

// AddXP is AddX for a result that will be rounded to prec digits: exact for ordinary operands, the leading
// digits plus a sticky flag when one addend lies more than 2^20 digits below the other.
func AddXP(a, b Val, prec uint64) X {
	if a.Form == Finite && b.Form == Finite && gapOf(a, b) >= farStickyFrom {
		if s, ok := addFarSticky(a, b, prec); ok {
			return s
		}
	}
	return AddX(a, b)
}

func gapOf(a, b Val) int64 {
	if CmpMag(a, b) < 0 {
		a, b = b, a
	}
	return a.Exp - int64(len(a.Digits)) - b.Exp
}

func Diff(x, y Val, prec uint64, mode Mode) Res { return Sum(x, y.Negate(), prec, mode) }

func Prod(x, y Val, prec uint64, mode Mode) Res {
	neg := x.Neg != y.Neg
	switch {
	case x.Form == Zero && y.Form == Inf, x.Form == Inf && y.Form == Zero:
		return Res{NaN: true}
	case x.Form == Inf || y.Form == Inf:
		return Res{V: MkInf(neg)}
	case x.Form == Zero || y.Form == Zero:
		return Res{V: MkZero(neg)}
	}
	v, a := Round(MulX(x, y), prec, mode)
	return Res{V: v, Acc: a}
}

func Quot(x, y Val, prec uint64, mode Mode) Res {
	neg := x.Neg != y.Neg
	switch {
	case x.Form == Zero && y.Form == Zero, x.Form == Inf && y.Form == Inf:
		return Res{NaN: true}
	case x.Form == Zero || y.Form == Inf:
		return Res{V: MkZero(neg)}
	case x.Form == Inf || y.Form == Zero:
		return Res{V: MkInf(neg)}
	}
	v, a := Round(QuoX(x, y, prec), prec, mode)
	return Res{V: v, Acc: a}
}

// Fma models x*y+u with a single rounding.
func Fma(x, y, u Val, prec uint64, mode Mode) Res {
	pneg := x.Neg != y.Neg
	if x.Form == Zero && y.Form == Inf || x.Form == Inf && y.Form == Zero {
		return Res{NaN: true}
	}
	if x.Form == Inf || y.Form == Inf {
		if u.Form == Inf && u.Neg != pneg {
			return Res{NaN: true}
		}
		return Res{V: MkInf(pneg)}
	}
	if u.Form == Inf {
		return Res{V: u}
	}
	var p Val
	if x.Form == Zero || y.Form == Zero {
		p = MkZero(pneg)
	} else {
		p = MulX(x, y).Val
	}
	s := AddXP(p, u, prec)
	if s.Form == Zero {
		s.Neg = SumZeroSign(p.Neg, u.Neg, mode)
		return Res{V: s.Val}
	}
	v, a := Round(s, prec, mode)
	return Res{V: v, Acc: a}
}

// FmaRangeChecked is x*y+u with the exact product subjected to the exponent range rule before the addition
// (overflow to an infinity, underflow to a zero): not the fused result, but what an implementation that forms
// the product as a Decimal first computes. Only differs from Fma when the product's exponent leaves the range.
func FmaRangeChecked(x, y, u Val, prec uint64, mode Mode) Res {
	if x.Form != Finite || y.Form != Finite {
		return Fma(x, y, u, prec, mode)
	}
	p := MulX(x, y).Val
	pr, _ := Round(X{Val: p}, uint64(len(p.Digits)), mode)
	return Sum(pr, u, prec, mode)
}

func Sqrt(x Val, prec uint64, mode Mode) Res {
	switch {
	case x.Form == Zero:
		return Res{V: x}
	case x.Neg:
		return Res{NaN: true}
	case x.Form == Inf:
		return Res{V: x}
	}
	v, a := Round(SqrtX(x, prec), prec, mode)
	return Res{V: v, Acc: a}
}

// SetVal models Set/SetPrec style rounding of a single operand.
func SetVal(x Val, prec uint64, mode Mode) Res {
	if x.Form != Finite {
		return Res{V: x}
	}
	v, a := Round(X{Val: x}, prec, mode)
	return Res{V: v, Acc: a}
}

// AccOf returns sign(stored - exact) for finite-or-special stored and exact X.
func AccOf(stored Val, exact X) Acc {
	if exact.Form == Zero {
		// exact zero: stored must be zero
		switch {
		case stored.Form == Zero:
			return Exact
		case stored.Neg:
			return Below
		}
		return Above
	}
	c := Cmp(stored, exact.Val)
	if c == 0 && exact.Sticky {
		// |exact| slightly larger than |exact.Val|
		if exact.Neg {
			return Above
		}
		return Below
	}
	return Acc(c)
}

// FromRat returns the exact value of a terminating decimal rational or, if r
// does not terminate, digits+3 significant digits plus sticky.
func FromRat(r *big.Rat, digits uint64) X {
	if r.Sign() == 0 {
		return X{Val: MkZero(false)}
	}
	num := new(big.Int).Abs(r.Num())
	den := r.Denom()
	a := FromInt(num, 0)
	b := FromInt(den, 0)
	// try exact: denominator of the form 2^i 5^j
	d := new(big.Int).Set(den)
	two, five := big.NewInt(2), big.NewInt(5)
	i, j := int64(0), int64(0)
	m := new(big.Int)
	for {
		q, rem := new(big.Int).QuoRem(d, two, m)
		if rem.Sign() != 0 {
			break
		}
		d = q
		i++
	}
	for {
		q, rem := new(big.Int).QuoRem(d, five, new(big.Int))
		if rem.Sign() != 0 {
			break
		}
		d = q
		j++
	}
	var x X
	if d.Cmp(big.NewInt(1)) == 0 {
		// num / (2^i 5^j) = num * 5^(k-j)... scale to 10^k, k = max(i,j)
		k := i
		if j > k {
			k = j
		}
		c := new(big.Int).Set(num)
		c.Mul(c, new(big.Int).Exp(two, big.NewInt(k-i), nil))
		c.Mul(c, new(big.Int).Exp(five, big.NewInt(k-j), nil))
		x = X{Val: FromInt(c, -k)}
	} else {
		x = QuoX(a, b, digits)
	}
	x.Neg = r.Sign() < 0
	return x
}

// ToRat returns the exact rational value of a finite/zero v. The caller bounds |Exp|.
func ToRat(v Val) *big.Rat {
	if v.Form != Finite {
		return new(big.Rat)
	}
	c, e := v.Coeff()
	r := new(big.Rat).SetInt(c)
	if e > 0 {
		r.Mul(r, new(big.Rat).SetInt(pow10(e)))
	} else if e < 0 {
		r.Quo(r, new(big.Rat).SetInt(pow10(-e)))
	}
	if v.Neg {
		r.Neg(r)
	}
	return r
}

// Classify names the rounding situation of x at precision prec (for coverage
// histograms only; it takes no part in any verdict).
func Classify(x X, prec uint64) string {
	if x.Form != Finite {
		return "special"
	}
	if x.Exp < MinExp {
		return "underflow"
	}
	if x.Exp > MaxExp {
		return "overflow"
	}
	n := uint64(len(x.Digits))
	if n <= prec {
		if x.Sticky {
			return "sticky-only"
		}
		return "exact"
	}
	rd := x.Digits[prec]
	more := n > prec+1 || x.Sticky
	allNines := strings.Count(x.Digits[:prec], "9") == int(prec)
	s := ""
	switch {
	case rd == '5' && !more:
		s = "tie"
	case rd == '5' || rd > '5':
		s = "above-half"
	default:
		s = "below-half"
	}
	if allNines {
		s += "+nines"
		if x.Exp == MaxExp {
			s += "+atMaxExp"
		}
	}
	return s
}

// UlpDistance returns |got - want| in units of one unit in the prec-th
// significant digit of want (finite, non-zero). Values more than a few decades
// apart yield a large constant instead of materialising the difference.
func UlpDistance(got, want Val, prec uint64) *big.Rat {
	far := new(big.Rat).SetInt64(1 << 40)
	if want.Form != Finite {
		if got.Equal(want) {
			return new(big.Rat)
		}
		return far
	}
	if got.Form == Inf {
		return far
	}
	if got.Form == Zero {
		got = Val{Form: Finite, Neg: false, Digits: "", Exp: want.Exp}
	}
	if d := got.Exp - want.Exp; got.Digits != "" && (d > 2 || d < -2) {
		return far
	}
	// scale both to integers at exponent e = min of low exponents
	cw, ew := want.Coeff()
	if want.Neg {
		cw.Neg(cw)
	}
	cg, eg := new(big.Int), ew
	if got.Digits != "" {
		cg, eg = got.Coeff()
		if got.Neg {
			cg.Neg(cg)
		}
	}
	ulpExp := want.Exp - int64(prec)
	e := ew
	if eg < e {
		e = eg
	}
	if ulpExp < e {
		e = ulpExp
	}
	if ew-e > 1<<22 || eg-e > 1<<22 || ulpExp-e > 1<<22 {
		return far
	}
	cw.Mul(cw, pow10(ew-e))
	cg.Mul(cg, pow10(eg-e))
	diff := new(big.Int).Sub(cg, cw)
	diff.Abs(diff)
	return new(big.Rat).SetFrac(diff, pow10(ulpExp-e))
}
