#!/bin/bash
# usage: ./mut_run.sh <patch.diff> <check-id>... : applies a seeded change to a scratch worktree of /repo and runs
# the given checks against it (TIER=quick|thorough, default quick). No sanity runs (see eval_mutant.sh for those).
set -u
diff=$1; shift
export GOFLAGS=-mod=mod GOPROXY=off GOSUMDB=off GOTOOLCHAIN=local
wt=/tmp/mr-$$
git -C /repo worktree add -q $wt ${REV:-HEAD} || exit 9
trap 'git -C /repo worktree remove --force '$wt' >/dev/null 2>&1' EXIT
git -C $wt apply $diff || { echo "patch does not apply: $diff"; exit 8; }
( cd $wt && go build ./... ) || { echo "does not build"; exit 7; }
cd /verif
for p in "$@"; do
  out=$(VERIF_REPO=$wt VERIF_SEED=${VERIF_SEED:-1} ./check $p ${TIER:-quick} 2>/dev/null); rc=$?
  echo "CHECK $p rc=$rc $(echo "$out" | grep -v '^KNOWN-FINDING' | grep -v '^\[check\]' | head -3 | cut -c1-500 | tr '\n' ' ')"
done
