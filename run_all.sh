#!/bin/bash
# usage: ./run_all.sh quick|thorough [seed]   -- runs every check, prints one line per property
tier=${1:-quick}; seed=${2:-1}
cd "$(dirname "$0")"
rc=0
for id in $(python3 -c "import json;print(' '.join(sorted(json.load(open('checks.json')))))"); do
  s=$(date +%s)
  out=$(VERIF_SEED=$seed ./check $id $tier 2>/dev/null); r=$?
  e=$(( $(date +%s) - s ))
  echo "$id rc=$r ${e}s $(echo "$out" | grep -v '^KNOWN-FINDING' | tail -1 | cut -c1-200)"
  [ $r -ne 0 ] && rc=1
done
exit $rc
