#!/bin/bash
# usage: ./eval_mutant.sh <prop-id> <mutant.diff> <demo_test.go> [demo-subdir] [extra check ids...]
# Applies a candidate breaking change to a scratch worktree of /repo, confirms that
#   (1) the library still builds and its own suite passes with the change,
#   (2) the demonstration test fails with the change and passes without it,
# then runs the property's quick check (and any extra ids) against the changed tree via VERIF_REPO.
set -u
id=$1; diff=$2; demo=$3; sub=${4:-.}; shift 4 2>/dev/null || shift $#
extra="$@"
export GOFLAGS=-mod=mod GOPROXY=off GOSUMDB=off GOTOOLCHAIN=local
wt=/tmp/ev-$$
git -C /repo worktree add -q $wt ${REV:-HEAD} || exit 9
trap 'git -C /repo worktree remove --force '$wt' >/dev/null 2>&1' EXIT
name=$(basename $demo)
# demo passes without the change?
cp $demo $wt/$sub/zz_$name
tn=$(grep -o 'func TestDemo[0-9A-Za-z_]*' $demo | head -1 | sed 's/func //')
race=""; grep -q "race" <<<"${DEMO_RACE:-}" && race="-race"
( cd $wt/$sub && go test -vet=off -count=1 $race -run "^$tn\$" . >/tmp/ev-$$.base 2>&1 ); base=$?
git -C $wt apply $diff || { echo "RESULT $id $(basename $diff): patch does not apply"; exit 8; }
( cd $wt/$sub && go test -vet=off -count=1 $race -run "^$tn\$" . >/tmp/ev-$$.mut 2>&1 ); mut=$?
rm -f $wt/$sub/zz_$name
( cd $wt && go build ./... && go test -vet=off -count=1 ./... >/tmp/ev-$$.suite 2>&1 ); suite=$?
echo "SANITY $id $(basename $diff): demo-without-change rc=$base (want 0), demo-with-change rc=$mut (want !=0), suite-with-change rc=$suite (want 0)"
cd /verif
for p in $id $extra; do
  out=$(VERIF_REPO=$wt VERIF_SEED=${VERIF_SEED:-1} ./check $p ${TIER:-quick} 2>/dev/null); rc=$?
  echo "CHECK $p rc=$rc $(echo "$out" | grep -v '^KNOWN-FINDING' | head -3 | cut -c1-400 | tr '\n' ' ')"
done
rm -f /tmp/ev-$$.*
