#!/bin/bash
# For each "fix:" commit in /repo: revert it in a scratch worktree and run the named checks with the
# replay tier disabled (VERIF_NO_REPLAY=1), so that the random search alone has to find the defect again.
export GOFLAGS=-mod=mod GOPROXY=off GOSUMDB=off GOTOOLCHAIN=local
cd /verif
while read hash props; do
  [ -z "$hash" ] && continue
  wt=/tmp/rv-$hash
  git -C /repo worktree add -q $wt HEAD || continue
  if ! git -C $wt revert -n $hash >/dev/null 2>&1; then echo "REVERT $hash: conflict, skipped"; git -C /repo worktree remove --force $wt; continue; fi
  ( cd $wt && go build ./... ) || { echo "REVERT $hash: does not build"; git -C /repo worktree remove --force $wt; continue; }
  for p in $props; do
    out=$(VERIF_REPO=$wt VERIF_NO_REPLAY=1 VERIF_SEED=${VERIF_SEED:-1} ./check $p quick 2>/dev/null); rc=$?
    echo "REVERT $hash $p rc=$rc $(echo "$out" | grep -v '^KNOWN' | head -2 | cut -c1-220 | tr '\n' ' ')"
  done
  git -C /repo worktree remove --force $wt
done <<LIST
dc2b77e C01 C02
298800f C01 C02 C04 C06
f1a54e9 C04
1b6cfd8 C03 C04
dd3b604 C03 C10
8705856 C04 C10 C15
ea37ffa C09 C14
dc14d23 C04 C20
1a2206d C20
b763dab C04 C17
a23bf93 C10 C13
423d9a2 C05 C09 C19
1673f4c C05
24c6c76 C08 C17
0f69ab5 C12
94c1a20 C13
8f7013a C13
a74ab9d C14
16c6f4e C19
17c4b31 C15
b9ca776 C15
32d3fd8 C15
78ee328 C06 C04
20600df C12
95051d5 C12
f4b7a44 C13
1c0c9d7 C15
3307a6c C15
fbb6d81 C15
bc0943e C13
50f6a30 C10 C15
baa8f99 C09 C15
LIST
