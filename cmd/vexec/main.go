// vexec executes programs of public decimal API calls (package sm) read as JSON
// lines from stdin and prints, per program, the outcome and the full snapshot
// of every variable after every step. It is built three times (default,
// decimal_pure_go, decimal_pure_go+math_big_pure_go) so that the same program
// can be compared across build configurations (C07).
package main

import (
	"bufio"
	"encoding/json"
	"fmt"
	"os"
	"runtime/debug"

	"verif/h"
	"verif/sm"
)

type stepOut struct {
	NaN   bool     `json:"nan,omitempty"`
	Panic string   `json:"panic,omitempty"`
	Rej   bool     `json:"rej,omitempty"`
	Ret   string   `json:"ret,omitempty"`
	Vars  []string `json:"vars"`
}

func run(p sm.Program) (out []stepOut, err string) {
	// a kernel that reads or writes outside its vectors may hit unmapped memory: report that as the program's
	// outcome (a panic the other builds do not show) instead of dying
	debug.SetPanicOnFault(true)
	defer func() {
		if r := recover(); r != nil {
			err = fmt.Sprint("executor: ", r)
		}
	}()
	m := sm.NewMachine(p.Init)
	for _, s := range p.Steps {
		o := m.Do(s)
		so := stepOut{NaN: o.NaN, Rej: o.Rejects, Ret: o.Ret}
		if o.Panic != nil {
			so.Panic = fmt.Sprintf("%T", o.Panic)
		}
		for _, v := range m.V {
			r := h.Read(v)
			so.Vars = append(so.Vars, fmt.Sprintf("%v|%s|%d|%v", r, r.Digits, r.Exp, r.Words))
		}
		out = append(out, so)
	}
	return out, ""
}

func main() {
	in := bufio.NewReaderSize(os.Stdin, 1<<20)
	w := bufio.NewWriter(os.Stdout)
	for {
		line, err := in.ReadBytes('\n')
		if len(line) > 1 {
			var p sm.Program
			res := map[string]interface{}{}
			if e := json.Unmarshal(line, &p); e != nil {
				res["error"] = e.Error()
			} else {
				steps, es := run(p)
				res["steps"] = steps
				if es != "" {
					res["error"] = es
				}
			}
			b, _ := json.Marshal(res)
			w.Write(b)
			w.WriteByte('\n')
			w.Flush()
		}
		if err != nil {
			return
		}
	}
}
