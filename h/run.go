package h

import (
	"bufio"
	"encoding/json"
	"fmt"
	"hash/fnv"
	"os"
	"path/filepath"
	"runtime/debug"
	"sort"
	"strings"
	"sync"
	"sync/atomic"
	"syscall"
	"testing"
	"time"

	"github.com/db47h/decimal"
	"pgregory.net/rapid"
)

// VerifDir is the root of the verification tree (replay files, known findings).
func VerifDir() string {
	if d := os.Getenv("VERIF_DIR"); d != "" {
		return d
	}
	return "/verif"
}

func Tier() string {
	if os.Getenv("VERIF_TIER") == "thorough" {
		return "thorough"
	}
	return "quick"
}

func Thorough() bool { return Tier() == "thorough" }

// Fail describes a violated check.
type Fail struct {
	Class string `json:"class"`
	Msg   string `json:"msg"`
}

func Failf(class, format string, args ...interface{}) *Fail {
	return &Fail{Class: class, Msg: fmt.Sprintf(format, args...)}
}

func (f *Fail) Error() string { return f.Class + ": " + f.Msg }

// Obs collects, per case, the labels and the non-triviality verdict.
type Obs struct {
	labels     []string
	nontrivial bool
}

func (o *Obs) Label(l string) {
	if o != nil {
		o.labels = append(o.labels, l)
	}
}
func (o *Obs) Labelf(f string, a ...interface{}) { o.Label(fmt.Sprintf(f, a...)) }
func (o *Obs) NonTrivial() {
	if o != nil {
		o.nontrivial = true
	}
}

// Stats is what a run measured about itself; it becomes the evidence file.
type Stats struct {
	Property       string            `json:"property"`
	Rule           string            `json:"rule"`
	Evaluations    int               `json:"evaluations"`
	NonTrivial     int               `json:"nontrivial_total"`
	Distinct       int               `json:"distinct_nontrivial"`
	ExcludedKnown  map[string]int    `json:"excluded_known,omitempty"`
	Classes        map[string]int    `json:"classes"`
	Samples        []json.RawMessage `json:"samples"`
	Hashes         []uint64          `json:"hashes,omitempty"`
	ReplayFiles    int               `json:"replay_files"`
	KnownReported  []string          `json:"known_reported,omitempty"`
	Extra          map[string]int    `json:"extra,omitempty"`
	seen           map[uint64]struct{}
	firstCase      []byte
	mu             sync.Mutex
	sampleInterval int
}

var (
	statsMu  sync.Mutex
	allStats = map[string]*Stats{}
)

func statsFor(id string) *Stats {
	statsMu.Lock()
	defer statsMu.Unlock()
	s := allStats[id]
	if s == nil {
		s = &Stats{Property: id, Classes: map[string]int{}, seen: map[uint64]struct{}{}, ExcludedKnown: map[string]int{}, Extra: map[string]int{}}
		allStats[id] = s
	}
	return s
}

// AddExtra lets a property record a measured counter (e.g. branch hits).
func AddExtra(id, key string, n int) {
	s := statsFor(id)
	s.mu.Lock()
	s.Extra[key] += n
	s.mu.Unlock()
}

const maxSamples = 6

func (s *Stats) record(o *Obs, enc []byte) {
	s.mu.Lock()
	defer s.mu.Unlock()
	s.Evaluations++
	if s.firstCase == nil {
		s.firstCase = append([]byte(nil), enc...)
	}
	for _, l := range o.labels {
		s.Classes[l]++
	}
	if o.nontrivial {
		s.NonTrivial++
		hh := fnv.New64a()
		hh.Write(enc)
		k := hh.Sum64()
		if _, ok := s.seen[k]; !ok {
			s.seen[k] = struct{}{}
			// spread the samples over the run: 1st, 10th, 100th, ... distinct case
			n := len(s.seen)
			if len(s.Samples) < maxSamples && (n == 1 || n == 7 || n == 50 || n == 400 || n == 3000 || n == 20000) {
				e := enc
				if len(e) > 3000 {
					e, _ = json.Marshal(map[string]interface{}{"truncated_case_json_prefix": string(enc[:2500]), "bytes": len(enc)})
				}
				s.Samples = append(s.Samples, json.RawMessage(append([]byte(nil), e...)))
			}
		}
	}
}

func (s *Stats) write() {
	out := os.Getenv("VERIF_OUT")
	if out == "" {
		return
	}
	s.mu.Lock()
	defer s.mu.Unlock()
	s.Distinct = len(s.seen)
	if len(s.Samples) == 0 && s.firstCase != nil {
		// no non-trivial case was seen (a run cut short): still show what a case looks like
		e := s.firstCase
		if len(e) > 3000 {
			e, _ = json.Marshal(map[string]interface{}{"truncated_case_json_prefix": string(e[:2500])})
		}
		s.Samples = append(s.Samples, json.RawMessage(e))
	}
	s.Hashes = s.Hashes[:0]
	for k := range s.seen {
		s.Hashes = append(s.Hashes, k)
	}
	sort.Slice(s.Hashes, func(i, j int) bool { return s.Hashes[i] < s.Hashes[j] })
	b, _ := json.Marshal(s)
	_ = os.MkdirAll(out, 0o755)
	_ = os.WriteFile(filepath.Join(out, "stats-"+s.Property+".json"), b, 0o644)
}

// ---- known findings -------------------------------------------------------------

type Known struct {
	Property string
	Match    string
	Replay   string
	Text     string
}

// LoadKnown parses KNOWN_FINDINGS.txt ("known:" lines only; "fixed:" lines suppress nothing).
func LoadKnown() []Known {
	f, err := os.Open(filepath.Join(VerifDir(), "KNOWN_FINDINGS.txt"))
	if err != nil {
		return nil
	}
	defer f.Close()
	var ks []Known
	sc := bufio.NewScanner(f)
	for sc.Scan() {
		line := strings.TrimSpace(sc.Text())
		if !strings.HasPrefix(line, "known:") {
			continue
		}
		k := Known{}
		rest := strings.Fields(strings.TrimPrefix(line, "known:"))
		var text []string
		for _, f := range rest {
			switch {
			case strings.HasPrefix(f, "property=") && k.Property == "":
				k.Property = strings.TrimPrefix(f, "property=")
			case strings.HasPrefix(f, "match=") && k.Match == "":
				k.Match = strings.TrimPrefix(f, "match=")
			case strings.HasPrefix(f, "replay=") && k.Replay == "":
				k.Replay = strings.TrimPrefix(f, "replay=")
			default:
				text = append(text, f)
			}
		}
		k.Text = strings.Join(text, " ")
		ks = append(ks, k)
	}
	return ks
}

// Prop bundles a property's generator, checker and known-finding matchers.
type Prop[C any] struct {
	ID    string
	Rule  string // how cases are generated and what makes one non-trivial (goes into the evidence)
	Gen   func(t *rapid.T) C
	Check func(c C, o *Obs) *Fail
	// Matchers decide, from the inputs alone, whether a case belongs to a
	// listed known finding; such cases are excluded from the random search by
	// construction and counted.
	Matchers map[string]func(c C) bool
	// Filter selects which files under replay/<ID>/ belong to this Prop (nil: all).
	Filter func(path string) bool
}

// SafeCheck runs Check and turns any panic into a Fail (ErrNaN panics that the
// check expects are recovered inside the check itself).
func (p *Prop[C]) SafeCheck(c C, o *Obs) (f *Fail) {
	defer func() {
		if r := recover(); r != nil {
			switch e := r.(type) {
			case BuildError:
				f = Failf("build", "%v", e.Msg)
			case *Fail:
				f = e // a check helper bailed out with a verdict
			default:
				cls := "panic"
				if _, ok := r.(decimal.ErrNaN); ok {
					cls = "unexpected-ErrNaN"
				}
				if m, ok := r.(string); ok && strings.HasPrefix(m, "model:") {
					// the reference model refused an input outside its cost
					// bounds: a generator slip, not a verdict on the code
					cls = "INFRA-model"
				}
				st := string(debug.Stack())
				if len(st) > 2500 {
					st = st[:2500]
				}
				f = Failf(cls, "%T: %v\n%s", r, r, st)
			}
		}
	}()
	return p.Check(c, o)
}

func (p *Prop[C]) activeKnown(t testing.TB) []Known {
	var ks []Known
	for _, k := range LoadKnown() {
		if k.Property != p.ID {
			continue
		}
		if k.Match != "" {
			if _, ok := p.Matchers[k.Match]; !ok {
				t.Fatalf("INFRA: KNOWN_FINDINGS.txt names matcher %q which property %s does not define", k.Match, p.ID)
			}
		}
		ks = append(ks, k)
	}
	return ks
}

type failRecord struct {
	Property string          `json:"property"`
	Class    string          `json:"class"`
	Msg      string          `json:"msg"`
	Case     json.RawMessage `json:"case"`
}

func writeFail(id string, f *Fail, enc []byte) {
	out := os.Getenv("VERIF_OUT")
	if out == "" {
		return
	}
	_ = os.MkdirAll(out, 0o755)
	b, _ := json.MarshalIndent(failRecord{Property: id, Class: f.Class, Msg: f.Msg, Case: enc}, "", " ")
	_ = os.WriteFile(filepath.Join(out, "fail-"+id+".json"), b, 0o644)
}

// Search runs the generated-input search for the property under rapid.
func (p *Prop[C]) Search(t *testing.T) {
	st := statsFor(p.ID)
	st.Rule = p.Rule
	defer st.write()
	known := p.activeKnown(t)
	rapid.Check(t, func(rt *rapid.T) {
		c := p.Gen(rt)
		for _, k := range known {
			if k.Match != "" && p.Matchers[k.Match](c) {
				st.mu.Lock()
				st.ExcludedKnown[k.Match]++
				st.mu.Unlock()
				return
			}
		}
		enc, err := json.Marshal(c)
		if err != nil {
			rt.Fatalf("INFRA: cannot encode case: %v", err)
		}
		o := &Obs{}
		f := p.SafeCheck(c, o)
		st.record(o, enc)
		if f != nil {
			writeFail(p.ID, f, enc)
			rt.Fatalf("%s violated [%s]: %s\ncase: %s", p.ID, f.Class, f.Msg, truncate(string(enc), 4000))
		}
	})
}

func truncate(s string, n int) string {
	if len(s) > n {
		return s[:n] + fmt.Sprintf("...(%d bytes)", len(s))
	}
	return s
}

// LoadCase reads either a bare case or a fail record wrapping one.
func LoadCase[C any](path string) (C, error) {
	var c C
	b, err := os.ReadFile(path)
	if err != nil {
		return c, err
	}
	var fr failRecord
	if json.Unmarshal(b, &fr) == nil && len(fr.Case) > 0 {
		b = fr.Case
	}
	dec := json.NewDecoder(strings.NewReader(string(b)))
	dec.DisallowUnknownFields()
	err = dec.Decode(&c)
	return c, err
}

// Replay runs every committed regression input of the property (and, when
// VERIF_REPLAY is set, only that file) through Check with no library in between.
func (p *Prop[C]) Replay(t *testing.T) {
	st := statsFor(p.ID)
	st.Rule = p.Rule
	defer st.write()
	known := p.activeKnown(t)
	var files []string
	if one := os.Getenv("VERIF_REPLAY"); one != "" {
		files = []string{one}
	} else {
		files, _ = filepath.Glob(filepath.Join(VerifDir(), "replay", p.ID, "*.json"))
		sort.Strings(files)
	}
	if os.Getenv("VERIF_NO_REPLAY") != "" && os.Getenv("VERIF_REPLAY") == "" {
		// sensitivity runs: only the listed known findings are replayed, so that the random search alone must find a reintroduced defect
		var keep []string
		for _, f := range files {
			rel, _ := filepath.Rel(VerifDir(), f)
			for _, k := range known {
				if k.Replay == rel {
					keep = append(keep, f)
				}
			}
		}
		files = keep
	}
	if p.Filter != nil {
		var keep []string
		for _, f := range files {
			if p.Filter(f) {
				keep = append(keep, f)
			}
		}
		files = keep
	}
	for _, path := range files {
		c, err := LoadCase[C](path)
		if err != nil {
			t.Fatalf("INFRA: cannot load replay file %s: %v", path, err)
		}
		o := &Obs{}
		o.Label("replay")
		f := p.SafeCheck(c, o)
		enc, _ := json.Marshal(c)
		st.mu.Lock()
		st.ReplayFiles++
		st.mu.Unlock()
		st.record(o, enc)
		if f == nil {
			continue
		}
		rel := path
		if r, err := filepath.Rel(VerifDir(), path); err == nil {
			rel = r
		}
		listed := false
		for _, k := range known {
			if k.Replay == rel {
				listed = true
				msg := fmt.Sprintf("KNOWN-FINDING: property=%s %s [replay=%s: %s]", p.ID, k.Text, rel, firstLine(f.Msg))
				fmt.Println(msg)
				st.mu.Lock()
				st.KnownReported = append(st.KnownReported, msg)
				st.mu.Unlock()
			}
		}
		if !listed {
			writeFail(p.ID, f, enc)
			fmt.Printf("REPLAY-FAIL property=%s file=%s class=%s: %s\n", p.ID, path, f.Class, truncate(f.Msg, 1500))
			t.Errorf("%s violated by replay file %s [%s]: %s", p.ID, path, f.Class, truncate(f.Msg, 1500))
		}
	}
}

func firstLine(s string) string {
	if i := strings.IndexByte(s, '\n'); i >= 0 {
		s = s[:i]
	}
	return truncate(s, 300)
}

// CatchNaN runs fn and reports whether it panicked with decimal.ErrNaN. Any
// other panic propagates.
func CatchNaN(fn func()) (nan bool) {
	defer func() {
		if r := recover(); r != nil {
			if _, ok := r.(decimal.ErrNaN); ok {
				nan = true
				return
			}
			panic(r)
		}
	}()
	fn()
	return false
}

// RecordGrid counts one enumerated (non-random) case in the property's statistics.
func RecordGrid(id string, o *Obs, c interface{}) {
	enc, _ := json.Marshal(c)
	o.Label("grid")
	statsFor(id).record(o, enc)
}

// ReportGridFail records the failure of an enumerated case like a search failure.
func ReportGridFail(t *testing.T, id string, f *Fail, enc []byte) {
	writeFail(id, f, enc)
	t.Fatalf("%s violated [%s]: %s\ncase: %s", id, f.Class, f.Msg, truncate(string(enc), 4000))
}

// WriteStats flushes the statistics of a property (for tests that do not go through Search/Replay).
func WriteStats(id string) { statsFor(id).write() }

// FirstN truncates s to n bytes.
func FirstN(s string, n int) string { return truncate(s, n) }

// FirstBytes truncates b to n bytes.
func FirstBytes(b []byte, n int) []byte {
	if len(b) > n {
		return b[:n]
	}
	return b
}

// FuzzFail records a failing native-fuzz input as an ordinary JSON replay case and fails the test.
func FuzzFail(t *testing.T, id string, f *Fail, c interface{}) {
	enc, _ := json.Marshal(c)
	writeFail(id, f, enc)
	t.Fatalf("%s violated [%s]: %s\ncase: %s", id, f.Class, f.Msg, truncate(string(enc), 2000))
}

var hungBefore atomic.Bool

// ProcessCPU returns the CPU time (user + system) this process has used so far.
func ProcessCPU() time.Duration {
	var ru syscall.Rusage
	if syscall.Getrusage(syscall.RUSAGE_SELF, &ru) != nil {
		return 0
	}
	return time.Duration(ru.Utime.Nano() + ru.Stime.Nano())
}

// Returns runs fn and reports whether it returned before BOTH budgets were used up: wall seconds of wall-clock time and
// wall/2 seconds of CPU time of this process (a stalled machine uses no CPU time; a call that does not end uses a CPU
// second per second). A panic in fn is re-raised in the caller. When it reports false, fn is still running in its
// goroutine. Only for calls that take a tiny fraction of the budget when they work.
func Returns(wall time.Duration, fn func()) bool {
	if hungBefore.Load() && wall > 8*time.Second {
		// (the abandoned call keeps a core busy: the cases that follow a first report - the shrinking attempts - wait 8 s)
		wall = 8 * time.Second
	}
	done := make(chan interface{}, 1)
	go func() {
		defer func() { done <- recover() }()
		fn()
	}()
	start, cpu0 := time.Now(), ProcessCPU()
	tick := time.NewTicker(250 * time.Millisecond)
	defer tick.Stop()
	for {
		select {
		case r := <-done:
			if r != nil {
				panic(r)
			}
			return true
		case <-tick.C:
			if time.Since(start) >= wall && ProcessCPU()-cpu0 >= wall/2 {
				hungBefore.Store(true)
				return false
			}
		}
	}
}
