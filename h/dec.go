// Package h holds the harness pieces shared by all property checks: reading a
// Decimal back into the model, building Decimals from JSON-serialisable specs,
// rapid generators, and the runner that counts, records and replays cases.
package h

import (
	"fmt"
	"math/big"
	"strings"

	"github.com/db47h/decimal"

	"verif/model"
)

const (
	DW   = 19                   // decimal digits per word
	Base = 10000000000000000000 // 10^19
)

func init() {
	if decimal.DigitsPerWord != DW || uint64(decimal.DecimalBase) != Base {
		panic("harness assumes 64-bit words of 19 decimal digits")
	}
	if decimal.ToNearestEven != 0 || decimal.ToNearestAway != 1 || decimal.ToZero != 2 ||
		decimal.AwayFromZero != 3 || decimal.ToNegativeInf != 4 || decimal.ToPositiveInf != 5 {
		panic("rounding mode numbering changed")
	}
	if decimal.MaxExp != model.MaxExp || decimal.MinExp != model.MinExp || decimal.MaxPrec != model.MaxPrec {
		panic("range constants changed")
	}
}

// Snap is everything observable about a Decimal through its public accessors.
type Snap struct {
	Form      model.Form
	Neg       bool
	Digits    string // significant digits, stripped (finite only)
	Exp       int64  // adjusted exponent (finite only)
	Prec      uint
	Mode      uint8
	Acc       int8
	Words     []uint64 // copy of the mantissa words, little endian (finite only)
	RawExp    int32    // exponent field as returned by BitsExp (any form)
	Malformed string   // non-empty: why the value is not canonical
}

func (s Snap) Val() model.Val {
	switch s.Form {
	case model.Zero:
		return model.MkZero(s.Neg)
	case model.Inf:
		return model.MkInf(s.Neg)
	}
	return model.Val{Form: model.Finite, Neg: s.Neg, Digits: s.Digits, Exp: s.Exp}
}

func (s Snap) String() string {
	m := ""
	if s.Malformed != "" {
		m = " MALFORMED(" + s.Malformed + ")"
	}
	return fmt.Sprintf("%v prec=%d mode=%v acc=%v%s", s.Val(), s.Prec, model.Mode(s.Mode), model.Acc(s.Acc), m)
}

// SameAll reports whether two snapshots agree on every observable attribute.
func (s Snap) SameAll(o Snap) bool {
	if s.Form != o.Form || s.Neg != o.Neg || s.Prec != o.Prec || s.Mode != o.Mode || s.Acc != o.Acc || s.Malformed != o.Malformed {
		return false
	}
	if s.Form != model.Finite {
		return true
	}
	if s.Digits != o.Digits || s.Exp != o.Exp || len(s.Words) != len(o.Words) {
		return false
	}
	for i := range s.Words {
		if s.Words[i] != o.Words[i] {
			return false
		}
	}
	return true
}

// SameButWords reports agreement on every attribute except the raw word layout
// (the same value may be stored with extra low zero words).
func (s Snap) SameButWords(o Snap) bool {
	return s.Malformed == o.Malformed && s.Val().Equal(o.Val()) && s.Prec == o.Prec && s.Mode == o.Mode && s.Acc == o.Acc
}

// SameValue reports equality of value and sign (signed zeros distinguished).
func (s Snap) SameValue(o Snap) bool {
	return s.Val().Equal(o.Val()) && s.Malformed == "" && o.Malformed == ""
}

// WordsToDigits renders little-endian base-10^19 words as a digit string, most
// significant digit first, 19 digits per word (leading zeros kept).
func WordsToDigits(w []uint64) string {
	b := make([]byte, len(w)*DW)
	for i := len(w) - 1; i >= 0; i-- {
		v := w[i]
		if v >= Base {
			// malformed word: keep it visible instead of silently wrapping
			return wordsToDigitsSlow(w)
		}
		o := (len(w) - 1 - i) * DW
		for j := DW - 1; j >= 0; j-- {
			b[o+j] = byte('0' + v%10)
			v /= 10
		}
	}
	return string(b)
}

func wordsToDigitsSlow(w []uint64) string {
	var b strings.Builder
	for i := len(w) - 1; i >= 0; i-- {
		fmt.Fprintf(&b, "%019d", w[i])
	}
	return b.String()
}

// DigitsToWords packs a digit string (most significant first) into
// little-endian words, the first digit becoming the top digit of the top word.
func DigitsToWords(d string) []decimal.Word {
	if d == "" {
		return nil
	}
	if r := len(d) % DW; r != 0 {
		d += strings.Repeat("0", DW-r)
	}
	n := len(d) / DW
	w := make([]decimal.Word, n)
	for i := 0; i < n; i++ {
		chunk := d[i*DW : (i+1)*DW]
		var v uint64
		for j := 0; j < DW; j++ {
			c := chunk[j]
			if c < '0' || c > '9' {
				panic("DigitsToWords: bad digit")
			}
			v = v*10 + uint64(c-'0')
		}
		w[n-1-i] = decimal.Word(v)
	}
	return w
}

// Read takes a snapshot of d through the public API only.
func Read(d *decimal.Decimal) Snap {
	s := Snap{Prec: d.Prec(), Mode: uint8(d.Mode()), Acc: int8(d.Acc()), Neg: d.Signbit()}
	mant, exp := d.BitsExp()
	s.RawExp = exp
	var bad []string
	if s.Mode > 5 {
		bad = append(bad, fmt.Sprintf("mode %d", s.Mode))
	}
	if s.Acc < -1 || s.Acc > 1 {
		bad = append(bad, fmt.Sprintf("accuracy %d", s.Acc))
	}
	switch {
	case d.IsInf():
		s.Form = model.Inf
		if d.IsZero() {
			bad = append(bad, "IsInf and IsZero")
		}
	case d.IsZero():
		s.Form = model.Zero
	default:
		s.Form = model.Finite
	}
	if s.Form != model.Finite {
		if len(mant) != 0 {
			bad = append(bad, "non-finite with mantissa")
		}
		if e := d.MantExp(nil); e != 0 {
			bad = append(bad, fmt.Sprintf("non-finite MantExp=%d", e))
		}
		if p := d.MinPrec(); p != 0 {
			bad = append(bad, fmt.Sprintf("non-finite MinPrec=%d", p))
		}
		if sg := d.Sign(); s.Form == model.Zero && sg != 0 || s.Form == model.Inf && (sg == 0 || (sg < 0) != s.Neg) {
			bad = append(bad, fmt.Sprintf("Sign()=%d", sg))
		}
		s.Malformed = strings.Join(bad, "; ")
		return s
	}
	if need := (uint64(s.Prec) + DW - 1) / DW; len(mant) > 1<<22 && uint64(len(mant)) > need+2 {
		// an unrounded result of tens of millions of digits: report it without spelling it out
		s.Malformed = fmt.Sprintf("mantissa of %d words (%d digits) at precision %d", len(mant), uint64(len(mant))*DW, s.Prec)
		s.Digits, s.Exp = "1", int64(exp)
		return s
	}
	s.Words = make([]uint64, len(mant))
	for i, w := range mant {
		s.Words[i] = uint64(w)
	}
	sane := true
	if len(mant) == 0 {
		bad = append(bad, "finite with empty mantissa")
		sane = false
	} else {
		for i, w := range s.Words {
			if w >= Base {
				bad = append(bad, fmt.Sprintf("word[%d]=%d >= 10^19", i, w))
				sane = false
				break
			}
		}
		if top := s.Words[len(s.Words)-1]; sane && top < Base/10 {
			bad = append(bad, fmt.Sprintf("top word %d has a leading zero digit", top))
			sane = false
		}
	}
	if len(mant) > 0 {
		all := WordsToDigits(s.Words)
		if sane {
			v := model.MkFinite(s.Neg, all, int64(exp))
			s.Digits, s.Exp = v.Digits, v.Exp
		} else {
			s.Digits, s.Exp = all, int64(exp)
		}
	}
	if sane {
		mp := uint(len(s.Digits))
		if s.Prec < 1 {
			bad = append(bad, "finite with precision 0")
		} else if mp > s.Prec {
			bad = append(bad, fmt.Sprintf("%d significant digits exceed precision %d", mp, s.Prec))
		}
		if got := d.MinPrec(); got != mp {
			bad = append(bad, fmt.Sprintf("MinPrec()=%d, digits=%d", got, mp))
		}
		if e := d.MantExp(nil); int64(e) != int64(exp) {
			bad = append(bad, fmt.Sprintf("MantExp()=%d, BitsExp exp=%d", e, exp))
		}
		if sg := d.Sign(); sg == 0 || (sg < 0) != s.Neg {
			bad = append(bad, fmt.Sprintf("Sign()=%d", sg))
		}
	}
	s.Malformed = strings.Join(bad, "; ")
	return s
}

// Spec is a JSON-serialisable recipe for a Decimal with all its attributes.
type Spec struct {
	F    string `json:"f"`              // "z" zero, "f" finite, "i" infinity
	Neg  bool   `json:"neg,omitempty"`  //
	D    string `json:"d,omitempty"`    // significant digits (finite)
	E    int64  `json:"e,omitempty"`    // adjusted exponent (finite): value = 0.D × 10^E
	P    uint   `json:"p"`              // precision (>= len(D) for finite)
	M    uint8  `json:"m"`              // rounding mode
	Hist string `json:"hist,omitempty"` // "", "acc", "cap", "stale": how the value came about
}

func (s Spec) Val() model.Val {
	switch s.F {
	case "z":
		return model.MkZero(s.Neg)
	case "i":
		return model.MkInf(s.Neg)
	case "f":
		v := model.MkFinite(s.Neg, s.D, s.E)
		return v
	}
	panic("bad spec form " + s.F)
}

func SpecOf(v model.Val, prec uint, mode uint8) Spec {
	s := Spec{Neg: v.Neg, P: prec, M: mode}
	switch v.Form {
	case model.Zero:
		s.F = "z"
	case model.Inf:
		s.F = "i"
	default:
		s.F = "f"
		s.D, s.E = v.Digits, v.Exp
		if uint(len(s.D)) > s.P {
			s.P = uint(len(s.D))
		}
	}
	return s
}

func (s Spec) String() string {
	return fmt.Sprintf("{%v p=%d m=%v %s}", s.Val(), s.P, model.Mode(s.M), s.Hist)
}

type BuildError struct{ Msg string }

func (e BuildError) Error() string { return "builder: " + e.Msg }

// rawFinite builds ±0.digits×10^exp at precision p and mode m from scratch.
func rawFinite(neg bool, digits string, exp int64, p uint, m uint8) *decimal.Decimal {
	d := new(decimal.Decimal).SetMode(decimal.RoundingMode(m)).SetPrec(p)
	d.SetBitsExp(DigitsToWords(digits), exp)
	if neg {
		d.Neg(d)
	}
	return d
}

// Build constructs the Decimal described by s and verifies it by reading it
// back. It panics with BuildError if the library does not deliver the
// described value (that is itself a defect in the construction path).
func (s Spec) Build() *decimal.Decimal {
	want := s.Val()
	mode := decimal.RoundingMode(s.M)
	var d *decimal.Decimal
	wantAccAny := false
	switch want.Form {
	case model.Finite:
		if uint(len(want.Digits)) > s.P {
			panic(BuildError{fmt.Sprintf("spec %v: precision below digit count", s)})
		}
		switch s.Hist {
		case "acc":
			// reach the value through an inexact rounding so that acc != Exact
			if s.P < 1<<20 {
				full := want.Digits + strings.Repeat("0", int(s.P)-len(want.Digits))
				for _, tail := range []string{"1", "9"} {
					src := full + "1"
					if tail == "9" {
						// (want - 1ulp) followed by 9
						b := []byte(full)
						i := len(b) - 1
						for i >= 0 && b[i] == '0' {
							b[i] = '9'
							i--
						}
						b[i]--
						if b[0] == '0' {
							continue // crossed a power of ten
						}
						src = string(b) + "9"
					}
					c := rawFinite(s.Neg, src, want.Exp, s.P+1, s.M)
					c.SetPrec(s.P)
					if r := Read(c); r.Malformed == "" && r.Val().Equal(want) && r.Acc != 0 {
						d = c
						wantAccAny = true
						break
					}
				}
			}
			if d == nil {
				d = rawFinite(s.Neg, want.Digits, want.Exp, s.P, s.M)
			}
		case "padfull":
			// as "pad", but all the way to the precision (up to 60000 digits of zeros below the value)
			pad := int(s.P) - len(want.Digits)
			if pad > 60000 {
				pad = 60000
			}
			d = rawFinite(s.Neg, want.Digits+strings.Repeat("0", pad), want.Exp, s.P, s.M)
		case "pad":
			// the mantissa carries zero words below the value's last digit (as exact results of operations at a larger
			// precision do, and as SetBitsExp and GobDecode accept): up to the precision, at most 12 extra words
			pad := int(s.P) - len(want.Digits)
			if pad > 12*DW {
				pad = 12 * DW
			}
			d = rawFinite(s.Neg, want.Digits+strings.Repeat("0", pad), want.Exp, s.P, s.M)
		case "gobpad":
			// more words than the precision needs: only a gob payload with zero words appended (which GobDecode accepts,
			// GobEncode never produces) gives this representation, e.g. 1.2345 at precision 5 held as [0, 0, T]
			d = rawFinite(s.Neg, want.Digits, want.Exp, s.P, s.M)
			b, err := d.GobEncode()
			if err != nil {
				panic(BuildError{"gobpad: " + err.Error()})
			}
			b = append(b, make([]byte, 8*(1+len(want.Digits)%3))...)
			d = new(decimal.Decimal)
			if err := d.GobDecode(b); err != nil {
				panic(BuildError{"gobpad: " + err.Error()})
			}
		case "cap", "stale", "hugecap":
			// a receiver that held a longer value before: large capacity, stale words
			// (hugecap: at least seven times the words it needs, like the receiver of an earlier Karatsuba product)
			n := len(want.Digits)/DW + 6
			if s.Hist == "hugecap" {
				n = 7*(len(want.Digits)/DW+1) + 8
			}
			d = rawFinite(!s.Neg, strings.Repeat("9", n*DW), 77, uint(n*DW), s.M)
			d.SetPrec(0)
			d.SetMode(mode).SetPrec(s.P)
			d.Set(rawFinite(s.Neg, want.Digits, want.Exp, s.P, s.M))
		default:
			d = rawFinite(s.Neg, want.Digits, want.Exp, s.P, s.M)
		}
	case model.Zero:
		switch {
		case s.Hist == "acc" && s.P >= 1:
			d = rawFinite(s.Neg, "1", model.MinExp+5, s.P, s.M)
			d.SetMantExp(d, -100) // underflow: a zero with acc != Exact
			wantAccAny = true
		case s.Hist != "":
			d = rawFinite(false, "123456789012345678901234567", 50, 40, s.M)
			d.Sub(d, d)
			d.SetPrec(s.P)
			if d.Signbit() != s.Neg {
				d.Neg(d)
			}
		default:
			d = new(decimal.Decimal).SetMode(mode).SetPrec(s.P)
			if s.Neg {
				d.Neg(d)
			}
		}
	case model.Inf:
		switch {
		case s.Hist == "acc" && s.P >= 1:
			d = rawFinite(s.Neg, "1", model.MaxExp-5, s.P, s.M)
			d.SetMantExp(d, 100) // overflow: an infinity with acc != Exact
			wantAccAny = true
		case s.Hist != "":
			d = rawFinite(false, "987654321098765432109876543", -50, 40, s.M)
			d.SetPrec(s.P)
			d.SetInf(s.Neg)
		default:
			d = new(decimal.Decimal).SetMode(mode).SetPrec(s.P)
			d.SetInf(s.Neg)
		}
	}
	got := Read(d)
	if got.Malformed != "" || !got.Val().Equal(want) || got.Prec != s.P || got.Mode != s.M || (!wantAccAny && got.Acc != 0) {
		panic(BuildError{fmt.Sprintf("spec %v built as %v", s, got)})
	}
	return d
}

var (
	log10of2, _ = new(big.Rat).SetString("0.301029995663981195213738894724493026768189881462108541310427461127108189274424509486927252118186172040684")
	log2of10, _ = new(big.Rat).SetString("3.321928094887362347870319429489390175864831393024580612054756395815934776608625215850139743359370155099657")
)

func ceilMul(p uint64, c *big.Rat) uint64 {
	if p == 0 {
		return 0
	}
	prod := new(big.Rat).Mul(c, new(big.Rat).SetInt(new(big.Int).SetUint64(p)))
	return new(big.Int).Quo(prod.Num(), prod.Denom()).Uint64() + 1 // the product is never an integer
}

// CeilLog10_2 returns ceil(p*log10(2)) exactly (100-digit constant; p < 2^64).
func CeilLog10_2(p uint64) uint64 { return ceilMul(p, log10of2) }

// CeilLog2_10 returns ceil(p*log2(10)) exactly.
func CeilLog2_10(p uint64) uint64 { return ceilMul(p, log2of10) }

// DisturbPool runs a few divisions, products and a square root on private variables so that every scratch
// buffer the library keeps between calls (its sync.Pool of mantissa buffers, of any small size) is handed out
// and overwritten. A value that was correct when its operation returned must still be correct afterwards:
// nothing it owns may also sit in that pool.
func DisturbPool() {
	for _, k := range []int{2, 3, 5, 9, 40} {
		x := rawFinite(false, strings.Repeat("7", (k+3)*DW), 5, uint((k+3)*DW), 0)
		y := rawFinite(false, strings.Repeat("3", k*DW), 2, uint(k*DW), 0)
		new(decimal.Decimal).SetPrec(uint(4*DW)).Quo(x, y)
		new(decimal.Decimal).SetPrec(uint(2*k*DW)).Mul(x, y)
	}
	x := rawFinite(false, strings.Repeat("8", 45*DW), 5, uint(45*DW), 0)
	new(decimal.Decimal).SetPrec(90*DW).Mul(x, x)
	new(decimal.Decimal).SetPrec(60).Sqrt(x)
}
