package h

import (
	"fmt"
	"strings"

	"pgregory.net/rapid"

	"verif/model"
)

// Lit is a generated base-10 literal together with the value it denotes.
type Lit struct {
	S   string    // the literal text
	V   model.Val // its exact value (finite or zero), adjusted exponent NOT range-checked
	Sep bool      // contains '_' separators (accepted with base 0 only)
}

// GenDecLiteral draws a base-10 floating-point literal of the documented
// grammar whose exact value is known by construction: [sign] int [ "." frac ]
// [ (e|E) [sign] digits ], digits split around the point anywhere, leading and
// trailing zeros, optional '_' separators in legal positions.
func GenDecLiteral(t *rapid.T, label string, maxDigits int, seps bool) Lit {
	return GenDecLiteralAt(t, label, maxDigits, seps, 0)
}

// GenDecLiteralAt is GenDecLiteral with the rounding patterns placed at precision p (0: at a drawn position).
func GenDecLiteralAt(t *rapid.T, label string, maxDigits int, seps bool, p int) Lit {
	neg := false
	sign := rapid.SampledFrom([]string{"", "", "+", "-"}).Draw(t, label+".sign")
	if sign == "-" {
		neg = true
	}
	var sig string
	if rapid.IntRange(0, 14).Draw(t, label+".zero") == 0 {
		sig = ""
	} else if rapid.Bool().Draw(t, label+".round") {
		rp := p
		if rp <= 0 {
			rp = rapid.IntRange(1, 40).Draw(t, label+".rp")
		}
		sig = GenRoundDigits(t, label+".rd", rp)
	} else {
		sig = GenDigits(t, label+".dig", maxDigits)
	}
	lead := strings.Repeat("0", rapid.SampledFrom([]int{0, 0, 0, 1, 2, 25}).Draw(t, label+".lead"))
	trail := strings.Repeat("0", rapid.SampledFrom([]int{0, 0, 0, 1, 3, 30}).Draw(t, label+".trail"))
	all := lead + sig + trail
	if all == "" {
		all = "0"
	}
	// point position: 0..len(all) digits before the point, or no point at all
	pt := rapid.IntRange(-1, len(all)).Draw(t, label+".point")
	var ip, fp string
	hasPoint := pt >= 0
	if hasPoint {
		ip, fp = all[:pt], all[pt:]
	} else {
		ip = all
	}
	// exponent part
	var exp int64
	expStr := ""
	if rapid.IntRange(0, 2).Draw(t, label+".hasexp") > 0 {
		exp = GenExp(t, label+".exp")
		es := rapid.SampledFrom([]string{"", "+"}).Draw(t, label+".esign")
		if exp < 0 {
			es = "-"
		}
		a := exp
		if a < 0 {
			a = -a
		}
		ez := strings.Repeat("0", rapid.SampledFrom([]int{0, 0, 1, 5}).Draw(t, label+".ezeros"))
		expStr = rapid.SampledFrom([]string{"e", "E"}).Draw(t, label+".echar") + es + ez + fmt.Sprint(a)
	}
	sep := false
	if seps && rapid.IntRange(0, 3).Draw(t, label+".sep") == 0 {
		ins := func(d string) string {
			if len(d) < 2 {
				return d
			}
			var b strings.Builder
			for i := 0; i < len(d); i++ {
				b.WriteByte(d[i])
				if i+1 < len(d) && rapid.IntRange(0, 4).Draw(t, label+".sepat") == 0 {
					b.WriteByte('_')
					sep = true
				}
			}
			return b.String()
		}
		ip, fp = ins(ip), ins(fp)
	}
	s := sign + ip
	if hasPoint {
		s += "." + fp
	}
	s += expStr
	// value: digits(all) × 10^(exp - len(frac digits))
	fracDigits := 0
	if hasPoint {
		fracDigits = len(all) - pt
	}
	v := model.MkFinite(neg, all, int64(len(all))+exp-int64(fracDigits))
	return Lit{S: s, V: v, Sep: sep}
}
