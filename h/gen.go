package h

import (
	"strings"

	"pgregory.net/rapid"

	"verif/model"
)

// splitmix64 expands one drawn 64-bit value into a deterministic stream; it is
// a pure function of drawn values (no RNG, clock or map order of our own).
func splitmix64(x *uint64) uint64 {
	*x += 0x9e3779b97f4a7c15
	z := *x
	z = (z ^ (z >> 30)) * 0xbf58476d1ce4e5b9
	z = (z ^ (z >> 27)) * 0x94d049bb133111eb
	return z ^ (z >> 31)
}

var pow10u = func() [20]uint64 {
	var p [20]uint64
	p[0] = 1
	for i := 1; i < 20; i++ {
		p[i] = p[i-1] * 10
	}
	return p
}()

// Word patterns: the values that matter to carry chains, quotient-digit
// estimation and the add-back branch, plus uniform filler.
const (
	pZero = iota
	pMax
	pHalf
	pHalfM1
	pPow
	pPowM1
	pSmall
	pOne
	pUniform
	pNearMax
	pPow2
	nPatterns
)

func genPattern(t *rapid.T, label string) int {
	// uniform filler is the most frequent single class but patterned words dominate together
	return rapid.SampledFrom([]int{pZero, pZero, pMax, pMax, pHalf, pHalfM1, pPow, pPowM1, pSmall, pOne, pUniform, pUniform, pUniform, pUniform, pNearMax, pPow2}).Draw(t, label)
}

func patternWord(t *rapid.T, p int, st *uint64) uint64 {
	switch p {
	case pZero:
		return 0
	case pMax:
		return Base - 1
	case pHalf:
		return Base / 2
	case pHalfM1:
		return Base/2 - 1
	case pPow:
		return pow10u[splitmix64(st)%19]
	case pPowM1:
		return pow10u[1+splitmix64(st)%18] - 1
	case pSmall:
		return splitmix64(st) % 1000
	case pOne:
		return 1
	case pNearMax:
		return Base - 1 - splitmix64(st)%1000
	case pPow2:
		// binary edges inside a decimal word: differences and sums of such words wrap 64-bit arithmetic
		return []uint64{1 << 63, 1 << 62, 1<<63 - 1, 1 << 32, 1<<63 + 1, 1<<62 + 1<<61}[splitmix64(st)%6]
	}
	return splitmix64(st) % Base
}

// GenWords draws n words (< 10^19), most significant first, as runs of
// patterns. Large vectors come from a short recipe so that shrinking works.
func GenWords(t *rapid.T, label string, n int) []uint64 {
	w := make([]uint64, 0, n)
	st := rapid.Uint64().Draw(t, label+".fill")
	for len(w) < n {
		p := genPattern(t, label+".pat")
		maxRun := n - len(w)
		run := 1
		if maxRun > 1 {
			if rapid.IntRange(0, 3).Draw(t, label+".long") == 0 {
				run = rapid.IntRange(1, maxRun).Draw(t, label+".run")
			} else {
				hi := 6
				if hi > maxRun {
					hi = maxRun
				}
				run = rapid.IntRange(1, hi).Draw(t, label+".run")
			}
		}
		for i := 0; i < run; i++ {
			w = append(w, patternWord(t, p, &st))
		}
	}
	return w
}

// wordsToDigitString renders most-significant-first words.
func wordsToDigitString(w []uint64) string {
	le := make([]uint64, len(w))
	for i, x := range w {
		le[len(w)-1-i] = x
	}
	return WordsToDigits(le)
}

// GenDigitCount draws a digit count from size classes up to max.
func GenDigitCount(t *rapid.T, label string, max int) int {
	type cl struct{ lo, hi int }
	classes := []cl{{1, 1}, {1, 4}, {2, 19}, {2, 19}, {20, 60}, {20, 60}, {61, 400}}
	if max > 400 {
		classes = append(classes, cl{401, 3000})
	}
	if max > 3000 {
		classes = append(classes, cl{3001, max})
	}
	c := classes[rapid.IntRange(0, len(classes)-1).Draw(t, label+".cls")]
	if c.lo > max {
		c.lo = max
	}
	if c.hi > max {
		c.hi = max
	}
	return rapid.IntRange(c.lo, c.hi).Draw(t, label+".n")
}

// GenDigits draws a significant-digit string of at most max digits (first
// digit non-zero; trailing zeros stripped, so it may come out shorter).
func GenDigits(t *rapid.T, label string, max int) string {
	n := GenDigitCount(t, label, max)
	return GenDigitsN(t, label, n)
}

// GenDigitsN draws exactly-n-digit material (before stripping trailing zeros),
// word-patterned relative to a drawn alignment.
func GenDigitsN(t *rapid.T, label string, n int) string {
	if n <= 4 {
		// small scope: every digit drawn
		b := make([]byte, n)
		for i := range b {
			lo := 0
			if i == 0 {
				lo = 1
			}
			b[i] = byte('0' + rapid.IntRange(lo, 9).Draw(t, label+".d"))
		}
		return strings.TrimRight(string(b), "0")
	}
	nw := (n + DW - 1) / DW
	s := wordsToDigitString(GenWords(t, label, nw+1))
	// alignment: where in the word grid the first digit sits
	off := rapid.IntRange(0, DW-1).Draw(t, label+".off")
	s = s[off : off+n]
	if s[0] == '0' {
		s = string(byte('1'+rapid.IntRange(0, 8).Draw(t, label+".lead"))) + s[1:]
	}
	s = strings.TrimRight(s, "0")
	return s
}

// GenRoundDigits draws digits built to stress rounding at precision p: a
// p-digit head (random, all nines, even/odd last digit) followed by a tail
// that is a tie, just below, just above, or far from a tie.
func GenRoundDigits(t *rapid.T, label string, p int) string {
	var head string
	switch rapid.IntRange(0, 5).Draw(t, label+".head") {
	case 0:
		head = strings.Repeat("9", p)
	case 1:
		head = "1" + strings.Repeat("0", p-1)
	default:
		head = GenDigitsN(t, label+".h", p)
		if len(head) < p {
			head += strings.Repeat("0", p-len(head))
		}
		if rapid.Bool().Draw(t, label+".nines") && p > 1 {
			k := rapid.IntRange(1, p-1).Draw(t, label+".k")
			head = head[:p-k] + strings.Repeat("9", k)
		}
	}
	zl := rapid.IntRange(0, 40).Draw(t, label+".zl")
	if rapid.IntRange(0, 5).Draw(t, label+".zfar") == 0 {
		// one stray digit far below the rounding position, often in the first or last digit of a word
		zl = rapid.IntRange(0, 1500).Draw(t, label+".zlfar")
		if al := rapid.IntRange(0, 2).Draw(t, label+".zalign"); al > 0 {
			// the stray digit's index from the top is p + 1 + zl (tails "5"+z+"1") or p + zl (tail z+"1")
			zl += (DW - (p+1+zl)%DW) % DW
			if al == 2 && zl > 0 {
				zl--
			}
		}
	}
	z := strings.Repeat("0", zl)
	n := strings.Repeat("9", rapid.IntRange(1, 40).Draw(t, label+".nl"))
	var tail string
	switch rapid.IntRange(0, 8).Draw(t, label+".tail") {
	case 0:
		tail = "5"
	case 1:
		tail = "5" + z + "1"
	case 2:
		tail = "4" + n
	case 3:
		tail = z + "1"
	case 4:
		tail = n
	case 5:
		tail = ""
	case 6:
		tail = "5" + z + "0"
	case 7:
		tail = rapid.StringMatching(`[0-9]{1,25}`).Draw(t, label+".rt")
	case 8:
		tail = "0" + z + GenDigitsN(t, label+".lt", rapid.IntRange(1, 30).Draw(t, label+".ltn"))
	}
	s := strings.TrimRight(head+tail, "0")
	if s == "" {
		s = "1"
	}
	return s
}

// GenExp draws an adjusted exponent over the whole int32 range by classes.
func GenExp(t *rapid.T, label string) int64 {
	switch rapid.IntRange(0, 9).Draw(t, label+".cls") {
	case 0, 1, 2, 3:
		return int64(rapid.IntRange(-40, 40).Draw(t, label))
	case 4, 5:
		return int64(rapid.IntRange(-2000, 2000).Draw(t, label))
	case 6:
		return model.MaxExp - int64(rapid.IntRange(0, 60).Draw(t, label))
	case 7:
		return model.MinExp + int64(rapid.IntRange(0, 60).Draw(t, label))
	default:
		return int64(rapid.Int32().Draw(t, label))
	}
}

// GenExpModerate draws exponents with |e| <= lim (for operations whose cost is linear in the exponent).
func GenExpModerate(t *rapid.T, label string, lim int) int64 {
	if rapid.IntRange(0, 2).Draw(t, label+".cls") > 0 {
		return int64(rapid.IntRange(-40, 40).Draw(t, label))
	}
	return int64(rapid.IntRange(-lim, lim).Draw(t, label))
}

func GenMode(t *rapid.T, label string) uint8 {
	return uint8(rapid.IntRange(0, 5).Draw(t, label))
}

// GenPrecFor draws a precision >= minPrec for an operand that must hold
// minPrec digits exactly.
func GenPrecFor(t *rapid.T, label string, minPrec int) uint {
	if minPrec < 1 {
		minPrec = 1
	}
	switch rapid.IntRange(0, 8).Draw(t, label+".cls") {
	case 0, 1, 2:
		return uint(minPrec)
	case 3, 4:
		return uint(minPrec + rapid.IntRange(0, 40).Draw(t, label))
	case 5:
		return uint(minPrec + rapid.IntRange(0, 5000).Draw(t, label))
	case 6:
		return model.MaxPrec
	case 7:
		// values at which 32-bit arithmetic on precisions (doubling, adding, times 19, in bits) wraps or changes sign
		base := rapid.SampledFrom([]uint64{1 << 31, 1 << 31, 1 << 30, 1 << 32, (1 << 32) / 3, (1 << 32) / 19, (1 << 31) / 19, 1292913986 /* 2^32*log10(2) */, 646456993}).Draw(t, label+".edge")
		p := int64(base) + int64(rapid.IntRange(-40, 40).Draw(t, label+".edgeoff"))
		if p > model.MaxPrec {
			p = model.MaxPrec
		}
		if p < int64(minPrec) {
			p = int64(minPrec)
		}
		return uint(p)
	default:
		return uint(rapid.Uint32Range(uint32(minPrec), model.MaxPrec).Draw(t, label))
	}
}

// GenResultPrec draws a receiver precision relative to an expected digit count.
func GenResultPrec(t *rapid.T, label string, around int, max int) uint {
	if around < 1 {
		around = 1
	}
	var p int
	switch rapid.IntRange(0, 9).Draw(t, label+".cls") {
	case 0, 1, 2:
		p = rapid.IntRange(1, around).Draw(t, label)
	case 3:
		p = rapid.IntRange(1, 4).Draw(t, label)
	case 4, 5:
		p = around + rapid.IntRange(-3, 3).Draw(t, label)
	case 6:
		p = around + rapid.IntRange(0, 60).Draw(t, label)
	case 7:
		p = rapid.SampledFrom([]int{7, 16, 17, 18, 19, 20, 34, 37, 38, 39, 57, 76}).Draw(t, label)
	default:
		p = rapid.IntRange(1, 2*around+40).Draw(t, label)
	}
	if p < 1 {
		p = 1
	}
	if max > 0 && p > max {
		p = max
	}
	return uint(p)
}

func GenHist(t *rapid.T, label string) string {
	return rapid.SampledFrom([]string{"", "", "", "acc", "cap", "stale", "hugecap", "pad", "gobpad"}).Draw(t, label)
}

// GenFinite draws a finite Spec (value, precision >= digits, mode, history).
func GenFinite(t *rapid.T, label string, maxDigits int) Spec {
	d := GenDigits(t, label+".dig", maxDigits)
	s := Spec{F: "f", D: d, E: GenExp(t, label+".exp"), Neg: rapid.Bool().Draw(t, label+".neg")}
	s.P = GenPrecFor(t, label+".prec", len(d))
	s.M = GenMode(t, label+".mode")
	s.Hist = GenHist(t, label+".hist")
	return s
}

// GenAny draws any Decimal: finite mostly, sometimes ±0 / ±Inf (clean or dirty).
func GenAny(t *rapid.T, label string, maxDigits int) Spec {
	switch rapid.IntRange(0, 11).Draw(t, label+".form") {
	case 0:
		return GenSpecial(t, label, "z")
	case 1:
		return GenSpecial(t, label, "i")
	}
	return GenFinite(t, label, maxDigits)
}

func GenSpecial(t *rapid.T, label string, form string) Spec {
	s := Spec{F: form, Neg: rapid.Bool().Draw(t, label+".neg"), M: GenMode(t, label+".mode")}
	s.P = uint(rapid.SampledFrom([]int{0, 1, 5, 34, 100}).Draw(t, label+".prec"))
	s.Hist = GenHist(t, label+".hist")
	return s
}

// Rare is true in roughly one case out of n. rapid's integer generators are biased towards small
// values, so "IntRange(0, n-1) == 0" is far more frequent than 1/n; hashing a drawn 64-bit value
// spreads the probability (still a pure function of drawn values).
func Rare(t *rapid.T, label string, n uint64) bool {
	x := rapid.Uint64().Draw(t, label)
	return splitmix64(&x)%n == 0
}

// Pow10u returns 10^n as a uint64 (n <= 19).
func Pow10u(n int) uint64 {
	p := uint64(1)
	for ; n > 0; n-- {
		p *= 10
	}
	return p
}
