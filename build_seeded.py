#!/usr/bin/env python3
"""Builds /verif/seeded/<id>/ from the mutation agents' deliverables and re-runs the sanity checks and the
property checks against each change (through eval_mutant.sh). Usage: build_seeded.py [Cxx-mN ...]"""
import json, os, re, shutil, subprocess, sys
SRC = os.environ.get("SEEDED_SRC", "/tmp/wt")
TAG = os.environ.get("SEEDED_TAG", "m")  # id = <prop>-<TAG><n>
NEEDS = {
 "C01-m1": ("uquo shortens a long dividend and loses the sticky bit of the dropped tail", "Quo with a dividend at least one 19-digit word longer than prec/19+1+len(y) words whose kept high part divides exactly, the only non-zero digit being in the dropped tail; wrong under directed modes, AwayFromZero and ToNearestEven ties"),
 "C01-m2": ("new uadd fast path skips the small addend when the exponent gap == precision (should be > precision)", "Add/Sub of like-signed magnitudes, ToNearestEven/ToNearestAway, exponent gap exactly equal to the precision, larger operand's mantissa fits the precision in whole words, small operand's leading digit >= 5"),
 "C02-m1": ("uquo computes the quotient length without the guard word when prec is a multiple of 19", "Quo/SetRat at precision 19, 38, 57..., inexact quotient, significand(x) < significand(y): Acc() reports Exact for a truncated quotient"),
 "C02-m2": ("Set only resets acc when z != x", "two steps: an inexact operation into z, then an exact operation through Set with the receiver aliasing the surviving operand (z.Set(z), z.Add(z, 0), ...): stale Below/Above"),
 "C03-m1": ("FMA computes the product at 2*prec digits instead of exactly", "x, y with more digits than the receiver so that digits(x*y) > 2*prec, and a tie created by the first rounding or massive cancellation with u"),
 "C03-m2": ("FMA zero-addend branch reads u.neg after Mul (aliasing)", "receiver is u, u is a zero, exact zero product of the opposite sign (and the mode that makes the rule visible)"),
 "C04-m1": ("FMA aliasing guard compares buffers only (revert of the F-03b repair)", "z.FMA(x, y, z) with z an infinity that never had a mantissa buffer"),
 "C04-m2": ("Add forces -0 under ToNegativeInf also for zeros produced by underflow", "ToNegativeInf, opposite-signed operands at MinExp whose difference underflows: positive exact difference returned as -0"),
 "C05-m1": ("Sqrt treats exact squares of roots with prec+1/prec+2 digits as inexact (bound 2*prec instead of 2*wp)", "ToNearestEven, x = m^2 with m of prec+1 digits ending in 5 after an even digit: the exact tie rounds up instead of to even"),
 "C05-m2": ("Sqrt returns for +-0/+Inf before restoring the receiver's precision and mode", "special-value operand whose precision or mode differs from the receiver's; visible through Prec()/Mode() afterwards"),
 "C07-m1": ("shl10VU_g rewritten as an ascending loop (loses overlap safety)", "portable kernel called with the destination above the source inside one array and a shift not a multiple of 19 (dec.shl in place); assembly stays correct, so only the twin comparison or the pure-Go build shows it"),
 "C07-m2": ("div10W_g drops the nAdj refinement of the reciprocal estimate", "double-word dividends with high word >= 0.86e19, low word within 3% of 2^64 and small remainder (about 1.3e-5 of uniform inputs); the assembly kernel stays exact"),
 "C08-m1": ("overflow check for a rounding carry moved from round to setExpAndRound", "paths that call round directly (Set into a smaller precision, SetPrec, parsing, 0-y) on a value with exponent MaxExp and leading nines that rounds up: exponent wraps to MinExp instead of giving Inf"),
 "C08-m2": ("FMA zero-addend shortcut only taken for non-finite operands", "FMA(x, y, +-0) with finite x, y whose product has more digits than the receiver's precision: unrounded mantissa, MinPrec > Prec"),
 "C09-m1": ("uquo lets dec.div reuse the dividend's buffer for the remainder", "Quo whose dividend has at least prec/19+1+len(y) words (d <= 0, no copy) and a non-zero remainder: operand x is overwritten"),
 "C09-m2": ("FMA sets the precision of a precision-0 receiver after the zero-addend shortcut", "FMA into a precision-0 receiver with u = +-0 whose precision exceeds x's and y's"),
 "C10-m1": ("usub's exact-cancellation branch no longer resets acc", "x - x into a receiver whose previous result was inexact: stale accuracy and, under ToNegativeInf, the wrong zero sign"),
 "C10-m2": ("FMA zero-addend branch reads u.neg after Mul", "z.FMA(x, y, z) with z = +-0 and an exact zero product of the opposite sign"),
 "C11-m1": ("fmtE computes the printed exponent in int32", "exponent exactly MinExp or MinExp+1 printed with e/E/g/G/MarshalText/JSON"),
 "C11-m2": ("scan drops low zero words of the mantissa before deriving the exponent from its length", "literal whose digit string ends in >= 19 zeros parsed into a receiver needing fewer words than the literal has (Text('f') of values >= 1e19, Text('b') with Prec >> MinPrec)"),
 "C12-m1": ("dec.scan skips the last partial digit group when it is all zeros and a point was seen", "base-10 literal with a point and >= 20 digits whose last (count mod 19) digits are zeros spanning the point"),
 "C12-m2": ("scan rounds before applying the binary exponent as well", "base 2/8/16 fraction or p exponent with a mantissa longer than the receiver's precision"),
 "C13-m1": ("'f' rounding at the leading digit computes 2+0.mant at x's precision instead of MinPrec+1", "'f' with the position exactly at the leading digit, MinPrec == Prec, digits 5 0..0 d (ToNearestEven) or 4 9..9 d (ToNearestAway)"),
 "C13-m2": ("'g' decides exponent-vs-plain layout from the exponent before rounding", "%.Ng of a value whose first N digits are nines and which rounds up, with the exponent one below a layout threshold (999.9 at %.3g)"),
 "C14-m1": ("decToNat size estimate drops the +1 bit", "Int/Rat/Float of values whose integer part has 58, 135, 212, ... digits and is >= 2^(64k): top word lost"),
 "C14-m2": ("Rat no longer clears the destination's denominator in the integer branches", "x.Rat(z) with a reused z holding a non-integer and x an integer filling whole words or with many trailing zeros"),
 "C15-m1": ("saturatedFloat no longer checks the form", "zero or infinity held by a receiver that previously held a value with exponent beyond the float range (stale exponent)"),
 "C15-m2": ("SetFloat uses f.Prec() instead of f.MinPrec()", "big.Float of precision > 4*z.prec+64 holding a short value (1, 0.5, 12345): misses the exact path"),
 "C16-m1": ("ucmp tail loop indexes the longer y with i instead of j", "y's mantissa at least two words longer than x's, equal shared words, non-zero middle extra word and zero lowest word"),
 "C16-m2": ("ucmp compares exponents by int32 subtraction", "two finite values of the same sign whose exponents differ by more than 2^31-1"),
 "C17-m1": ("GobDecode restores the receiver's mode after rounding to its precision", "decoding into a receiver with non-zero precision smaller than the transmitted digit count and a mode different from the sender's"),
 "C17-m2": ("GobDecode validates the precision in words instead of digits", "corrupt payload only: precision not a multiple of 19 with non-zero digits in the unused part of the lowest word, or a lowered precision field"),
 "C18-m1": ("divLarge normalises the shared divisor in place and restores it afterwards", "two goroutines, one dividing by a shared divisor of >= 2 words with first digit 1-4 while another reads it; the racy write is in an assembly kernel (invisible to -race in the default build)"),
 "C18-m2": ("Append's constant 2 hoisted to a package variable whose sign is written per call", "two goroutines formatting values below the last printed digit with 'f' and opposite signs"),
 "C19-m1": ("Context.apply sets the precision before the mode", "Context.Set of an operand with more digits than the context precision whose mode differs from the context's"),
 "C19-m2": ("Context.Abs applies the context to the receiver before the latch check", "NaN-producing operation, then Abs on a receiver whose precision/mode differ from the context's, before Err()"),
 "C20-m1": ("SetBitsExp clamps the raw exponent to [MinExp-1, MaxExp+1] before normalising", "unnormalised mantissa with exp >= MaxExp+2 whose true value is representable (leading zero digits >= exp-MaxExp)"),
 "C20-m2": ("BitsExp returns the stale mantissa of zeros and infinities", "receiver that held a non-zero value and then became zero/Inf; BitsExp, or SetBitsExp(x.BitsExp())"),
 "C01-r4m1": ("uadd skips the alignment for operands more than 2^31 digits apart and calls setExpAndRound(exp, 1) on the larger one", "gap > MaxInt32 digits with a mantissa that already fits the precision: round returns before looking at the sticky bit, away-from-zero modes one ulp short (2.6 GB, 6 s per case; thorough tier)"),
 "C01-r4m2": ("uquo takes the zero-extended dividend from the buffer pool (not zeroed) once it has 2^20 words", "Quo at a precision of 19.9 million digits or more, after an earlier Quo of that class with a longer dividend mantissa"),
 "C02-r4m1": ("uadd shortcut for operands more than 2^28 digits apart drops the sticky bit", "exponent gap > 268 million digits: Acc() Exact for an inexact sum, directed modes also one ulp short"),
 "C02-r4m2": ("scan's exact-scaling bound for positive binary exponents narrowed to 4*prec+64", "decimal mantissa divisible by a high power of five with a matching p exponent (5^270 p272 = 4e270): takes the rounded-power path"),
 "C03-r4m1": ("FMA zero-addend branch applies the exact-zero sign rule also to products that underflow to an inexact zero", "finite x, y with the product exponent below MinExp, u = +-0 of the opposite sign"),
 "C03-r4m2": ("FMA forms the exact product directly and adds the exponents in int32", "product exponent outside [MinExp, MaxExp] with a finite non-zero addend: wraps by 2^32 instead of overflowing/underflowing (inside the input zone of known finding F-03c)"),
 "C04-r4m1": ("FMA zero-addend branch applies the exact-zero sign rule also to products that underflow", "FMA(-tiny, tiny, +0): +0 instead of -0"),
 "C04-r4m2": ("SetFloat64 decodes the bits itself and recognises quiet NaNs only", "signalling NaN bit patterns: no ErrNaN, receiver becomes an infinity"),
 "C05-r4m1": ("Sqrt cuts the scaled operand to about 2*(prec+2) digits before the exact-root comparison", "x = s^2 + delta with short s and delta more than ~40 zeros below: sticky digit lost, round-up modes and exact ties wrong"),
 "C05-r4m2": ("Sqrt halves the exponent in int32", "operand exponent exactly MaxExp: b+1 wraps"),
 "C06-r4m1": ("divRecursive no longer clears the quotient slice", "Decimal-level Quo by a divisor of >= 100 words into a receiver whose buffer is reused (dirty)"),
 "C06-r4m2": ("uquo shortens an over-long dividend (divisors >= 100 words) with a sticky scan that skips the top dropped word", "kept part an exact multiple of the divisor, only the top dropped word non-zero"),
 "C07-r4m1": ("add10VV assembly tail loop: carry-in added after the hardware-carry test without a second test", "a word pair in the n%4 tail summing to exactly 2^64-1 with a carry coming in"),
 "C07-r4m2": ("sub10VW assembly compares source and destination pointers with CMPL (32 bits)", "distinct vectors whose addresses agree in their low 32 bits (4 GiB apart): the copy of the untouched tail is skipped"),
 "C08-r4m1": ("usub computes the difference into a pooled temporary that is then put back into the pool", "in-place Sub with a temporary of >= 40 words; the receiver's mantissa is overwritten by the next pool user"),
 "C08-r4m2": ("Int converts in place (new decToNatScratch) and intMant returns x.mant without a copy when no shift is needed", "x with exp == 19*len(mant) and >= 2 words: x.Int() leaves x with an all-zero mantissa"),
 "C09-r4m1": ("Int converts in place and intMant no longer copies in the no-shift case", "integers whose digit count is a multiple of 19 (>= 38) stored with all words: the operand of Int is zeroed"),
 "C09-r4m2": ("log10_2 constant truncated to 11 digits", "SetFloat into a precision-0 receiver at big.Float precisions 579517, 904664, ... bits (superseded by the F-31 repair, which removed the constant from that path; confirmed against revision 50f6a30)"),
 "C10-r4m1": ("dec.sqr alias guard kept below the Karatsuba threshold only", "z.Mul(z, z) with >= 50 words into a receiver buffer of >= 6k words left by an earlier product"),
 "C10-r4m2": ("divRecursive no longer clears the quotient slice", "divisor >= 100 words, receiver buffer reused with stale words"),
 "C11-r4m1": ("convertWords splits base-10 conversion in two halves (second in a goroutine) from 2^14 words, split point off by the spare byte", "mantissa of >= 16384 words (311 000 digits): an invented 0 mid-mantissa, last digit dropped"),
 "C11-r4m2": ("dec.scan stages digit groups beyond 2^14 words and copies from the reallocated array", "literal longer than 311 400 digits into a receiver without a buffer that large"),
 "C12-r4m1": ("scan's exact-scaling window for positive p exponents narrowed to 4*prec+L+64", "mantissa divisible by 5^k with a large positive p exponent"),
 "C12-r4m2": ("scanExponent accumulates the exponent itself and rejects -2^63", "exponent field -9223372036854775808 (valid int64) with a zero mantissa or a p exponent"),
 "C13-r4m1": ("'f' rounding at the leading digit computes 2+0.mant with at most 76 digits", "'f', position at x's leading digit, ToNearestEven, mantissa 5, three zero words, then a tail: rounded twice"),
 "C13-r4m2": ("writeMultiple writes padding in 128-byte chunks and drops the last full chunk", "Format with a width that needs exactly 128, 256, ... padding bytes"),
 "C14-r4m1": ("decToNat sizes its result with digits*100000/30103", "integers of exactly 32675, 65350, 92881, ... digits close to 10^d (all nines): top word dropped"),
 "C14-r4m2": ("SetInt digit estimate bits*3010299956/10^10+1", "big.Int of 608255 bits or more close to 2^b: most significant decimal word dropped"),
 "C15-r4m1": ("SetFloat exact-path bound replaced by ceil(prec*log2 10)+64", "c*2^s*10^v with v > 64 (superseded: the bound it narrowed was itself too narrow, F-26; no longer applies)"),
 "C15-r4m2": ("Float64's intermediate big.Float inherits the Decimal's rounding mode", "directed mode in x and x within 2^-10 ulp of a float64 midpoint"),
 "C16-r4m1": ("Cmp fast path for equal precision <= 19 and equal exponent compares mant[0] only", "a value whose mantissa carries extra zero words (decoded from a gob payload with zero words appended)"),
 "C16-r4m2": ("Cmp same-shape loop decides by the sign of int64(x-y)", "equal shape, first differing word pair at least 2^63 apart"),
 "C17-r4m1": ("GobDecode adopts the parsed words and also puts them into the buffer pool", "decode into a fresh variable, then any pool user (multi-word Quo) on other variables, then look at the decoded value again"),
 "C17-r4m2": ("GobDecode copies only the words that fit the receiver's buffer before rounding", "receiver with precision > 0 and a mid-sized buffer, payload longer than it with a zero run down to the cut and something below"),
 "C18-r4m1": ("Sqrt's constants three and oneHalf created lazily without sync.Once", "the first Sqrt calls of the process overlapping"),
 "C18-r4m2": ("a package-level spare slot in front of the buffer pool for scratch of >= 4096 words", "two concurrent operations on operands of 26000+ digits"),
 "C19-r4m1": ("the contexts' recover helper type-switches without a default and swallows non-error panic values", "a string panic (rounding under an out-of-range mode) inside a context operation"),
 "C19-r4m2": ("FMA sizes the exact product as 2*max(x.prec, y.prec) in uint32", "an operand precision just above 2^31: the product is rounded to a handful of digits"),
 "C20-r4m1": ("SetBitsExp folds the low words of long slices into a sticky bit computed one digit short", "slice >= 8 words longer than the precision needs, highest dropped word d*10^18, everything else below zero, round-up mode"),
 "C20-r4m2": ("SetBitsExp clamps the raw exponent to +-2^32 instead of +-2^62", "slice of 113 million words (leading zeros worth more than 2^31 digits) with an exponent above 2^32"),
 "C01-r5m1": ("uadd/usub fold an addend more than 2^16 words below the other into a sticky bit after extending the larger one to prec/19+1 words", "effective subtraction from an exact power of ten, gap above 1.245 million digits, precision 18, 37, 56, ... (one guard digit short when the leading digit cancels), nearest modes"),
 "C01-r5m2": ("uquo drops the low words of a dividend with >= 1024 surplus words and takes their sticky bit with a digit count where a word count is meant", "dividend 20 000 digits longer than needed whose kept part divides exactly, the rest non-zero only above its lowest ~1000 digits (mantissa zero-padded below)"),
 "C02-r5m1": ("uadd/usub fold an addend into a sticky bit when the gap exceeds prec+2+65536 words, measured from the rounding position instead of from the low end of the other operand", "a mantissa of more than 1.2 million digits (all nines or zeros) and an addend placed exactly at its bottom: a carry or borrow through the whole run is lost"),
 "C02-r5m2": ("uquo tries a short division first and treats a non-zero trial remainder as 'never terminates'", "x / 2^k with k above ~190 at a precision that holds the whole terminating expansion: reported Below/Above instead of Exact"),
 "C03-r5m1": ("FMA adds a one-digit stand-in instead of the product when the product lies a word below what z keeps of u", "u longer than the precision by 20+ digits with a run of nines (same sign) or zeros (opposite) from the rounding digit down to the product"),
 "C03-r5m2": ("FMA trims the exact product below the rounding digit to one sticky word (exponent of the sum assumed >= that of the larger operand)", "subtraction from a power of ten: the rounding digit is the top digit of the sticky word, product word exactly 5*10^18 with something below, nearest modes"),
 "C04-r5m1": ("SetFloat64 decodes the bits itself and recognises quiet NaNs only", "signalling NaN bit patterns become infinities"),
 "C04-r5m2": ("FMA adds the product to u inline without Add's -0 fix-up", "u == -(x*y) exactly under ToNegativeInf: +0 instead of -0"),
 "C05-r5m1": ("Sqrt's exactness shortcut uses 2*prec instead of 2*(prec+2)", "x = m^2 with m of prec+1 digits ending in 5, ToNearestEven"),
 "C05-r5m2": ("Sqrt reads 'digits were lost' from the accuracy field of the scaled operand", "an operand whose own Acc() is not Exact (leftover from an earlier rounding) that is an exact square, round-up modes"),
 "C06-r5m1": ("umul trims each factor to prec/19+3 words with a sticky bit", "a product that is exactly a round number or a hair above one with a long factor (7 x ceil(1/7), 2^200 x 5^200) at a small precision"),
 "C06-r5m2": ("divRecursive no longer clears the quotient slice", "divisor >= 100 words and a receiver whose buffer is reused"),
 "C07-r5m1": ("decCpyInv gets an SSE2 path for >= 1024 words whose loads and stores inside a block run upwards", "shl10VU with shift 0, >= 1024 words, destination 1..7 words above the source in the same array"),
 "C07-r5m2": ("shr10VU software-pipelined: x[i+2] loaded one iteration early", "reads one word beyond x: faults when x ends at the end of a page followed by an inaccessible one"),
 "C08-r5m2": ("GobDecode decodes the mantissa into the receiver's own buffer before validating", "a payload rejected by a mantissa/precision check and a finite receiver with enough capacity: receiver left malformed"),
 "C09-r5m1": ("the NaN exits of Add/Sub/Mul/Quo/FMA share a helper that rebuilds the receiver from a struct literal without the mode", "a receiver in a non-default mode, an ErrNaN panic, then Mode()"),
 "C09-r5m2": ("SetRat with a power-of-ten denominator goes through SetInt + SetMantExp", "precision-0 receiver and a denominator 10^k with more digits than the numerator and than 34"),
 "C10-r5m1": ("setNat stops when the scratch number is exhausted and leaves the remaining receiver words unwritten", "SetInt/SetRat/SetFloat of an integer with exactly 19k digits whose bit length overshoots, into a receiver that held more words before"),
 "C10-r5m2": ("divLarge skips the pooled copy of the divisor when no scaling is needed", "z.Quo(x, z) with a divisor of 3+ words whose leading digit is 5..9"),
 "C11-r5m1": ("Parse refuses texts longer than 1 MiB", "values of more than 1.05 million digits"),
 "C11-r5m2": ("convertWords converts blocks of 2^16 words in goroutines and drops the top partial block", "mantissas of more than 65536 words whose length is not a multiple of 65536"),
 "C12-r5m1": ("scanExponent collects the exponent digits in a 20-byte buffer", "exponent fields with leading zeros, more than 20 digit characters"),
 "C12-r5m2": ("Parse recognises Inf after trimming any run of signs", "'--Inf', '+-inf', '++++Inf' accepted"),
 "C13-r5m1": ("Append's constants 2 and 0.01 hoisted to package variables whose sign is written per call", "two goroutines formatting small values of opposite sign with 'f' (a concurrency failure: caught by C18, invisible to the sequential C13)"),
 "C13-r5m2": ("%g prints with fmtF and strips trailing fractional zeros, scanning the whole buffer for the '.'", "Append onto a buffer that already contains a '.', g/G format, a round integer"),
 "C14-r5m1": ("setNat skips the division of the top word when it is 'below' 10^19, testing r > 10^19", "a big.Int whose top 64-bit word is exactly 10^19: divide overflow panic"),
 "C14-r5m2": ("Int/Rat convert in place into the caller's big.Int; the normalisation scans from the old length", "a caller-supplied big.Int / big.Rat that held a longer value before and a mantissa just under a 2^(64k) boundary"),
 "C15-r5m1": ("Float64/Float32 work on the top 1024 words with the rest folded into a sticky digit taken with a word count where a digit count is meant", "an exact float followed by zeros and one stray digit about 19 500 digits down: value right, accuracy Exact"),
 "C15-r5m2": ("floatPow5 keeps 14 instead of 64 guard bits in the running square", "Float of values with decimal exponents beyond +-3e6: hundreds of ulps off at 1e8"),
 "C16-r5m1": ("Cmp decides by the exponents first, negating them for two negative operands (-MinExp wraps)", "two negative values one of which has exponent MinExp"),
 "C16-r5m2": ("ucmp skips equal leading words four at a time with a mis-parenthesised XOR/OR test", "mantissas of >= 4 words whose first difference is not in the lowest word of its block"),
 "C17-r5m1": ("GobDecode checks mantissa digits against the precision field only for precision-0 receivers", "corrupt payload with precision p' below the digit count into a receiver of precision between p' and the digit count: MinPrec > Prec"),
 "C17-r5m2": ("GobDecode returns early for zero and infinity payloads, keeping the transmitted accuracy", "an inexact zero or infinity decoded into a receiver with non-zero precision: Acc() not Exact"),
 "C18-r5m1": ("Append's constant 0.01 hoisted to a package variable whose sign is written per call", "two goroutines in Text('f') on values below the last printed digit, opposite signs"),
 "C18-r5m2": ("scratch buffers above 2^15 words bypass the pool and are parked in an atomic.Value taken with Load then Store(nil)", "two goroutines asking for giant scratch within the same few nanoseconds after a buffer has been parked (no data race; the demonstration hammers for 1.2 s on average). NOT caught: see DESIGN section 8"),
 "C19-r5m1": ("the six recover closures folded into a type switch without a default", "a string panic (rounding under an out-of-range mode) inside a context operation is swallowed"),
 "C19-r5m2": ("setPrec drops the MaxPrec clamp", "Context precision above 2^32-1 wraps (1<<32+3 gives a 3-digit context)"),
 "C20-r5m1": ("SetInt and SetBitsExp share a precision-0 default without the MaxPrec clamp", "a slice of more than 226 million words (2^32 digits) into a precision-0 receiver: precision wraps to 34"),
 "C01-r6m1": ("divRecursive no longer clears the quotient slice", "Quo by a divisor of >= 100 words into a receiver whose buffer is reused (C01 builds fresh receivers: caught by C06 and C10, which vary the receiver's history)"),
 "C01-r6m2": ("umul returns early on certain over/underflow with the exponent sum formed in int", "32-bit builds only (GOARCH=386): no violation on amd64, where the pinned suite and every check run; out of scope, DESIGN section 7 item 17"),
 "C02-r6m1": ("uadd/usub skip the alignment when the leading exponents are more than 2^17 words apart", "an operand of more than 2.49 million digits whose tail meets the small addend: (1+-10^-2600000) -+ 10^-2600000 is exactly 1"),
 "C02-r6m2": ("SetInt splits integers of >= 4096 words as q*10^drop + m with Euclidean DivMod", "negative integers of ~79 000+ digits a hair below a rounding boundary: accuracy and directed modes mirrored"),
 "C03-r6m1": ("FMA truncates the scratch product to exp(x)+exp(y)-lastDigit(u)+prec+2 words", "a short addend that cancels the leading part of the product exactly, the remainder starting more than 38 zeros further down: (10^100+1)^2 - (10^200+2*10^100) = 1e30"),
 "C03-r6m2": ("uadd/usub replace an addend more than max(prec)+2+2^17 digits below the other by a one-digit stand-in", "only through FMA, whose scratch product is longer than its precision field says: a product with a short head, 140 000 zeros or nines and a small low part, plus a smaller addend of the opposite sign"),
 "C06-r6m1": ("uquo cuts surplus low words off the dividend before dividing, sticky from the truncated division only", "precision far below the dividend's length, kept prefix an exact multiple, dropped part non-zero"),
 "C06-r6m2": ("64-bit shortcuts in mul10WW_g / div10WW_g for 32-bit words with a widening slip", "32-bit builds only (GOARCH=386); out of scope, DESIGN section 7 item 17"),
 "C07-r6m1": ("add10VW / sub10VW assembly clamp n to what is really max(len(z), len(x))", "len(x) > len(z) (decKaratsubaAdd's call shape) with a carry or borrow running through the whole destination"),
 "C07-r6m2": ("shr10VU assembly shifts the low digits of x[len(z)] into the top word when len(x) > len(z)", "a call shape the library never uses (it always passes equal lengths; on the unchanged tree the assembly and Go versions of shl10VU already differ for such calls): outside the property's domain ('inputs satisfying the kernel's precondition ... the way the library calls it')"),
 "C08-r6m1": ("the two 'exponent overflow' exits of scan share one error and the second no longer resets the receiver to zero", "a literal with a binary exponent outside the int32 range and more mantissa digits than the receiver's precision: the abandoned receiver is an unrounded finite value"),
 "C08-r6m2": ("SetBitsExp skips normalisation when handed the receiver's own slice", "BitsExp, edit the words in place so that the top word drops below 10^18, SetBitsExp with the same slice header"),
 "C09-r6m1": ("UnmarshalText accepts the text '<nil>' (what a nil pointer marshals to) and resets the receiver", "that five-byte text on a receiver with non-zero precision or a non-default mode"),
 "C09-r6m2": ("Sqrt's argument checks reordered: the sign test comes after x.MantExp(z)", "Sqrt of a negative finite x into a different receiver: after the ErrNaN panic z carries x's precision and mode"),
 "C10-r6m1": ("uquo divides only the leading words of an over-long dividend, as a view into x.mant at an offset", "x.Quo(x, y) with a one-word y and x carrying a few zero words below its value (gob payload with zero words appended)"),
 "C10-r6m2": ("divLarge skips the scaled copy of a divisor that needs no scaling (>= 100 words)", "y.Quo(x, y) with a divisor of 1900+ digits whose leading digit is >= 5: index out of range"),
 "C11-r6m1": ("dec.scan fills a buffer sized from the reader's Len(), growFront computes the offset before extending", "fmt.Sscan of a text of 703+ digits into a fresh receiver (readers without Len), or Parse of 2.49 million digits"),
 "C11-r6m2": ("fmtE/fmtB/fmtP share an appendExp helper, callers subtract in int", "32-bit builds only (GOARCH=386); out of scope, DESIGN section 7 item 17"),
 "C12-r6m1": ("5^n for negative binary exponents built by a pow5 helper whose digit estimate n*69897/100000+1 is one short", "binary exponent exactly -13301, -26602, -37767, ... at a precision that holds the whole expansion"),
 "C12-r6m2": ("scan returns 'exponent overflow' instead of +-Inf when rounding carries past MaxExp", "base-10 literal at exponent MaxExp with leading nines and more digits than the precision, round-up mode"),
 "C13-r6m1": ("writeMultiple writes padding from 4 KiB blocks, peeling one full block off under an if", "field widths needing more than 8192 padding bytes"),
 "C13-r6m2": ("fmtF appends the integer part's trailing zeros with Sprintf(\"%0*d\")", "f layout of a value with more than 1 000 000 trailing zeros (fmt's width limit)"),
 "C14-r6m1": ("Int64/Uint64 keep only the top two mantissa words before shifting", "32-bit builds only (GOARCH=386, 9-digit words); out of scope, DESIGN section 7 item 17"),
 "C14-r6m2": ("decToNat's one-word fast path widened to two words stored as one big.Word", "32-bit builds only (GOARCH=386); out of scope, DESIGN section 7 item 17"),
 "C15-r6m1": ("Float64/Float32 trust the intermediate's accuracy when the result is >= 4 units away from it", "a mantissa of 8000+ digits at one of the isolated exponents where floatPow5 errs by 3.5..4.5 units, x a hair from a float: accuracy on the wrong side"),
 "C15-r6m2": ("floatPow5 caches recent powers keyed by uint32(n)<<16 | prec", "two consecutive conversions at the same precision whose n differ by k*65536 (one of them with ~65 000 digits)"),
 "C16-r6m1": ("Cmp fast path for both precisions <= 19 compares exponent and mant[0]", "a small-precision value whose mantissa carries zero words below its significant word (gob payload with zero words appended)"),
 "C16-r6m2": ("ucmp compares exponents by the sign of int(x.exp)-int(y.exp)", "32-bit builds only (GOARCH=386); out of scope, DESIGN section 7 item 17"),
 "C17-r6m1": ("GobDecode copies only ceil(R/19)+1 top words when the receiver's precision R is below the sender's, counted in uint32", "receiver precision in [MaxPrec-17, MaxPrec-1] with a sender precision above it and more than 19 digits"),
 "C17-r6m2": ("GobDecode accepts a finite payload with precision field 0 when the receiver has its own precision", "corrupt payload, receiver precision below the mantissa's digit count: malformed result without an error"),
 "C18-r6m1": ("Append's constants 2 and 0.01 allocated once at package level, their sign written per call", "concurrent Text('f') of values below the last printed digit"),
 "C18-r6m2": ("FMA computes long products in a pooled buffer and returns it to the pool before the addition", "concurrent FMA on shared operands of 30+ words into receivers with less than half the product's precision"),
 "C19-r6m1": ("NewFloat64 gets the operators' recover handler, which assigns the error unconditionally", "a context that is already latched, then NewFloat64(NaN) before Err(): the first error is lost"),
 "C19-r6m2": ("NewFloat routes big.Floats of <= 53 bits through float64 unless that over- or underflows completely", "a value between 2^-1075 and 2^-1022 with more bits than a denormal holds"),
 "C20-r6m1": ("SetBitsExp normalises only the leading words of a long slice, out of place into the receiver's buffer", "the slice is the receiver's own array extended within its capacity by 2+ words with a top word that has leading zero digits: overlapping shift"),
 "C20-r6m2": ("SetMantExp decides over/underflow early with >= / <= where > / < is meant", "mantissa exponent MinExp with offset +4294967295 (or MaxExp with -4294967295): Inf / 0 instead of a finite value at the other end"),
}
def main():
    want = sys.argv[1:]
    for pid in sorted(os.listdir(SRC)):
        if not pid.endswith(".out"):
            continue
        prop = pid[:-4]
        for n in (1, 2):
            sid = "%s-%s%d" % (prop, TAG, n)
            if want and sid not in want:
                continue
            d, demo = os.path.join(SRC, pid, "mutant%d.diff" % n), os.path.join(SRC, pid, "demo%d_test.go" % n)
            if not (os.path.exists(d) and os.path.exists(demo)):
                continue
            out = os.path.join("/verif/seeded", sid)
            os.makedirs(out, exist_ok=True)
            shutil.copy(d, os.path.join(out, "patch.diff"))
            shutil.copy(demo, os.path.join(out, "demo_test.go.txt"))
            sub = "context" if re.search(r"^package context", open(demo).read(), re.M) else "."
            extra = {"C02-r3m1": ["C01"], "C19-r3m2": ["C01", "C04"], "C04-m1": ["C03", "C10"], "C04-m2": ["C01", "C03"], "C08-m1": ["C01", "C12"], "C02-m2": ["C10"], "C07-m1": [], "C18-m1": [], "C04-r4m1": ["C03"], "C04-r4m2": ["C15"], "C19-r4m2": ["C03", "C04"], "C08-r4m2": ["C09", "C14"], "C08-r4m1": ["C09", "C10"], "C02-r4m1": ["C01"], "C02-r4m2": ["C12"], "C09-r4m2": ["C15"], "C10-r4m2": ["C06", "C01"], "C06-r4m1": ["C10", "C01"], "C06-r4m2": ["C01", "C02"], "C16-r4m1": ["C17"], "C17-r4m1": ["C08", "C18"], "C20-r4m1": ["C08"], "C13-r5m1": ["C18"], "C08-r5m2": ["C17"], "C06-r5m1": ["C01", "C02"], "C04-r5m2": ["C03"], "C02-r5m1": ["C01"], "C02-r5m2": ["C01"], "C01-r5m2": ["C02"], "C10-r5m1": ["C14"], "C06-r5m2": ["C10"], "C17-r5m1": ["C08"], "C01-r6m1": ["C06", "C10"], "C08-r6m1": ["C12"], "C08-r6m2": ["C20"], "C03-r6m2": ["C01"], "C10-r6m1": ["C01"], "C02-r6m1": ["C01"], "C02-r6m2": ["C14"], "C06-r6m1": ["C01", "C02"], "C18-r6m1": ["C13"]}.get(sid, [])
            env = dict(os.environ)
            if prop == "C18":
                env["DEMO_RACE"] = "race"
            p = subprocess.run(["/verif/eval_mutant.sh", prop, d, demo, sub] + extra, stdout=subprocess.PIPE, stderr=subprocess.STDOUT, text=True, env=env)
            sanity, checks = "", {}
            for line in p.stdout.splitlines():
                if line.startswith("SANITY"):
                    sanity = line
                m = re.match(r"CHECK (C\d+) rc=(\d+) (.*)", line)
                if m:
                    checks[m.group(1)] = {"exit": int(m.group(2)), "caught": m.group(2) == "1", "first_lines": m.group(3)[:500]}
            what, needs = NEEDS.get(sid, ("", ""))
            if not what and os.path.exists(os.path.join(SRC, pid, "README.md")):
                shutil.copy(os.path.join(SRC, pid, "README.md"), os.path.join(out, "AGENT_README.md"))
                what, needs = "see AGENT_README.md (the sub-agent's own description)", "see AGENT_README.md"
            meta = {
                "id": sid, "breaks_property": prop, "change": what, "needs_to_manifest": needs,
                "written_by": "independent sub-agent given only the property text and a scratch worktree",
                "demonstration": "demo_test.go.txt (copy to %s/ of the repository as a _test.go file; passes on the unchanged tree, fails with patch.diff applied)" % sub,
                "confirmed": sanity,
                "commands": ["./eval_mutant.sh %s seeded/%s/patch.diff seeded/%s/demo_test.go.txt %s %s" % (prop, sid, sid, sub, " ".join(extra))],
                "checks_run_against_it": checks,
            }
            json.dump(meta, open(os.path.join(out, "meta.json"), "w"), indent=1)
            print(sid, sanity[-95:], {k: v["caught"] for k, v in checks.items()}, flush=True)
main()
