//go:build verif

package props

import (
	"fmt"
	"math"
	"math/big"
	"strings"

	"pgregory.net/rapid"

	"verif/h"
	"verif/model"
)

// C12, literals m p k with a binary exponent of any size (up to the limits of the int32 range), constructed so that
// the exact value m * 2^k lies at a chosen (tiny) distance from a number of `precision` digits. These are the inputs on
// which an insufficiently accurate power of two shows: the scaled value lands on the wrong side of that number and a
// directed mode returns a neighbour that is more than one unit away from the exact value. Random mantissas come this
// close with probability 10^-12 and less.
//
// The reference is computed in 700-bit binary floating point: m * 2^k is exact there, the power of ten that brings it
// into [1, 10) is built by squaring (about 60 roundings of relative error 2^-700 each), so the first 150 decimal
// digits are right; the construction uses at most precision + 125 of them.

const c12RefBits = 700

// c12Pow10 returns 10^n (n >= 0) at c12RefBits bits.
func c12Pow10(n int64) *big.Float {
	r := new(big.Float).SetPrec(c12RefBits).SetInt64(1)
	b := new(big.Float).SetPrec(c12RefBits).SetInt64(10)
	for ; n > 0; n >>= 1 {
		if n&1 == 1 {
			r.Mul(r, b)
		}
		if n > 1 {
			b.Mul(b, b) // (not beyond what is needed: 10^(2^30) overflows big.Float's exponent range)
		}
	}
	return r
}

// c12Scaled returns s in [1, 10) and e10 with v = s * 10^e10 (v > 0), to c12RefBits bits.
func c12Scaled(v *big.Float) (*big.Float, int64) {
	// v = mant * 2^exp, mant in [0.5, 1)
	mant := new(big.Float)
	exp := v.MantExp(mant)
	mf, _ := mant.Float64()
	e10 := int64(math.Floor(math.Log10(mf) + float64(exp)*math.Log10(2)))
	var s *big.Float
	for tries := 0; tries < 4; tries++ {
		if e10 >= 0 {
			s = new(big.Float).SetPrec(c12RefBits).Quo(v, c12Pow10(e10))
		} else {
			s = new(big.Float).SetPrec(c12RefBits).Mul(v, c12Pow10(-e10))
		}
		switch {
		case s.Cmp(big.NewFloat(1)) < 0:
			e10--
		case s.Cmp(big.NewFloat(10)) >= 0:
			e10++
		default:
			return s, e10
		}
	}
	panic("c12Scaled: cannot normalise")
}

// c12DigitsOf returns the first n significant decimal digits of s in [1, 10), truncated.
func c12DigitsOf(s *big.Float, n int) string {
	// (printed far beyond what is used: Text rounds, and a value a hair below a round number must not be carried up)
	t := s.Text('f', 190) // d.ddddd
	t = strings.Replace(t, ".", "", 1)
	return t[:n]
}

// c12Pow2Exact returns the exact value of m * 2^k cut after n digits (n <= 125) with a sticky bit, or ok=false when
// big.Float cannot hold it.
func c12Pow2Exact(m *big.Int, k int64, n int) (ex model.X, ok bool) {
	if m.Sign() <= 0 || k > math.MaxInt32-int64(m.BitLen())-8 || k < math.MinInt32+int64(m.BitLen())+8 {
		return ex, false
	}
	v := new(big.Float).SetPrec(c12RefBits).SetInt(m)
	v.SetMantExp(v, int(k))
	if v.IsInf() || v.Sign() == 0 {
		return ex, false
	}
	s, e10 := c12Scaled(v)
	d := c12DigitsOf(s, n)
	// (exact when everything the reference knows beyond the n digits is zero: the constructions stay at least 60
	// digits short of that, so a value that close is the round number itself, e.g. 2^300 p-300)
	all := c12DigitsOf(s, 185)
	ex = model.X{Val: model.MkFinite(false, strings.TrimRight(d, "0"), e10+1), Sticky: strings.TrimRight(all[n:], "0") != ""}
	if strings.TrimRight(d, "0") == "" {
		return ex, false
	}
	return ex, true
}

// genC12Pow2Near constructs the literal: precision P, a P-digit number R, a binary exponent k, a side and a
// closeness c: m = R * 10^j / 2^k rounded down or up to an integer of about P + c digits, so that m * 2^k is R * 10^j
// times (1 -+ 10^-(P+c)).
func genC12Pow2Near(t *rapid.T) C12Case { return genPow2Near(t, 0) }

// genPow2Near: maxK > 0 keeps |k| within 300..maxK (for callers whose reference builds the exact expansion).
func genPow2Near(t *rapid.T, maxK int) C12Case {
	c := C12Case{Kind: "pow2near", M: h.GenMode(t, "zmode"), Base: rapid.SampledFrom([]int{0, 10}).Draw(t, "base")}
	c.Entry = rapid.SampledFrom([]string{"parse", "parse", "setstring", "unmarshaltext", "parsedecimal", "scan"}).Draw(t, "entry")
	P := rapid.IntRange(1, 12).Draw(t, "p")
	c.P = uint(P)
	R, _ := new(big.Int).SetString(h.GenDigitsN(t, "r", P), 10)
	if rapid.Bool().Draw(t, "rpow10") || R == nil || R.Sign() == 0 {
		R = big.NewInt(1)
	}
	var k int64
	switch rapid.IntRange(0, 4).Draw(t, "kcls") {
	case 0:
		k = int64(rapid.IntRange(300, 5000).Draw(t, "k"))
	case 1:
		k = int64(rapid.IntRange(5000, 1<<22).Draw(t, "k"))
	case 2:
		k = int64(rapid.IntRange(1<<22, 1<<30).Draw(t, "k"))
	default:
		k = int64(rapid.IntRange(1<<30, math.MaxInt32-200).Draw(t, "k"))
	}
	if maxK > 0 {
		k = int64(rapid.IntRange(300, maxK).Draw(t, "kbounded"))
	}
	if rapid.Bool().Draw(t, "kneg") {
		k = -k
	}
	closeness := rapid.IntRange(9, 21).Draw(t, "closeness")
	if rapid.IntRange(0, 3).Draw(t, "closer") == 0 {
		// beyond any fixed number of guard digits an implementation might use (38, 57, 76, ...)
		closeness = rapid.IntRange(22, 100).Draw(t, "closeness2")
	}
	up := rapid.Bool().Draw(t, "side")
	// q = 2^k scaled into [1, 10): 2^k = q * 10^e
	two := new(big.Float).SetPrec(c12RefBits).SetInt64(1)
	two.SetMantExp(two, int(k))
	q, _ := c12Scaled(two)
	// m ~ R * 10^(closeness + a few) / q: an integer of about P + closeness digits
	num := new(big.Float).SetPrec(c12RefBits).SetInt(R)
	num.Mul(num, c12Pow10(int64(closeness+1)))
	num.Quo(num, q)
	m, _ := num.Int(nil) // floor: m * 2^k is just below R * 10^j
	if up {
		m.Add(m, big.NewInt(1))
	}
	if m.Sign() <= 0 {
		m.SetInt64(1)
	}
	c.S = fmt.Sprintf("%sp%d", m.String(), k)
	if rapid.IntRange(0, 3).Draw(t, "neg") == 0 {
		c.S = "-" + c.S
	}
	return c
}

// checkC12Pow2Near: the literal must be accepted (its value is far inside the range) and stored as one of the two
// neighbours of the exact value.
func checkC12Pow2Near(c C12Case, o *h.Obs, got h.Snap, err error, wantPrec uint) *h.Fail {
	body := strings.TrimPrefix(c.S, "-")
	i := strings.IndexByte(body, 'p')
	m, ok := new(big.Int).SetString(body[:i], 10)
	var k int64
	if _, e := fmt.Sscan(body[i+1:], &k); e != nil || !ok {
		return h.Failf("bad-case", "literal %q", c.S)
	}
	ex, ok := c12Pow2Exact(m, k, int(wantPrec)+125)
	if !ok {
		o.Label("pow2near:no-reference")
		return nil
	}
	ex.Neg = strings.HasPrefix(c.S, "-")
	if err != nil {
		return h.Failf("rejected", "%s(%q, %d) rejected (%v): the value is about 10^%d", c.Entry, c.S, c.Base, err, ex.Exp)
	}
	if got.Form != model.Finite || got.Neg != ex.Neg {
		return h.Failf("value", "%s(%q, %d) = %v: the value is finite, about 10^%d", c.Entry, c.S, c.Base, got.Val(), ex.Exp)
	}
	if got.Prec != wantPrec || got.Mode != c.M {
		return h.Failf("attrs", "%s(%q): precision %d mode %v, want %d %v", c.Entry, c.S, got.Prec, model.Mode(got.Mode), wantPrec, model.Mode(c.M))
	}
	o.NonTrivial()
	tail := ex.Digits
	for uint(len(tail)) < wantPrec+120 {
		tail += "0"
	}
	tail = tail[wantPrec:]
	n := len(tail) - len(strings.TrimLeft(tail, "0"))
	if n9 := len(tail) - len(strings.TrimLeft(tail, "9")); n9 > n {
		n = n9
	}
	switch {
	case n >= 38:
		o.Label("pow2near:38-or-more-digits-from-a-representable-number")
		if n >= 76 {
			o.Label("pow2near:76-or-more-digits-from-a-representable-number")
		}
		fallthrough
	case n >= c12ZoneDigits:
		o.Label("pow2near:16-or-more-digits-from-a-representable-number")
	case n >= 8:
		o.Labelf("pow2near:%d-digits-from-a-representable-number", n)
	default:
		o.Label("pow2near:far")
	}
	if k > 1<<30 || k < -1<<30 {
		o.Label("pow2near:|k|>2^30")
	}
	return c12Faithful(c, o, got, ex, wantPrec, c.S)
}
