package props

import (
	"fmt"
	"math"
	"math/big"
	"testing"

	"github.com/db47h/decimal"
	"pgregory.net/rapid"

	"verif/h"
	"verif/model"
)

// C10: results are independent of aliasing and of the receiver's previous contents.

type C10Case struct {
	Op     string   `json:"op"`
	Blocks []h.Spec `json:"blocks"`          // one value per variable
	Role   []int    `json:"role"`            // Role[0]: receiver's block (-1: a variable of its own), Role[1..]: operand blocks
	ZPrev  *h.Spec  `json:"zprev,omitempty"` // previous contents of an un-aliased receiver (nil: fresh)
	P      uint     `json:"p"`
	M      uint8    `json:"m"`
	I      string   `json:"i,omitempty"`
	F      uint64   `json:"f,omitempty"`
	S      string   `json:"s,omitempty"`
	Exp    int64    `json:"exp,omitempty"`
}

var c10Arith = map[string]int{"add": 2, "sub": 2, "mul": 2, "quo": 2, "fma": 3, "sqrt": 1, "set": 1, "neg": 1, "abs": 1, "setmantexp": 1, "mantexp": 1, "copy": 1}
var c10Setters = []string{"setint64", "setuint64", "setint", "setfloat64", "setfloat", "setrat", "parse", "setinf", "setbitsexp", "gob"}
var c10ReadOnly = []string{"readonly"}

func c10MaxDigits() int {
	if h.Thorough() {
		return 5700
	}
	return 2400
}

// genC10Roomy: operands large enough for Karatsuba / recursive division, every role on one
// variable (or receiver = first operand), and a receiver whose buffer is many times larger than its
// value (as after an earlier, longer product): buffer-reuse decisions then differ from a fresh receiver's.
func genC10Roomy(t *rapid.T) C10Case {
	c := C10Case{M: h.GenMode(t, "zmode")}
	c.Op = rapid.SampledFrom([]string{"mul", "mul", "quo", "sqrt", "add", "fma"}).Draw(t, "op")
	n := rapid.IntRange(932, c10MaxDigits()).Draw(t, "n")
	mk := func(label string, n int) h.Spec {
		d := h.GenDigitsN(t, label, n)
		return h.Spec{F: "f", D: d, E: int64(rapid.IntRange(-50, 50).Draw(t, label+"e")), Neg: c.Op != "sqrt" && rapid.Bool().Draw(t, label+"neg"),
			Hist: rapid.SampledFrom([]string{"hugecap", "hugecap", "cap", ""}).Draw(t, label+"h")}
	}
	ar := c10Arith[c.Op]
	c.Role = make([]int, ar+1)
	c.Blocks = []h.Spec{mk("b0", n)}
	switch rapid.IntRange(0, 2).Draw(t, "shape") {
	case 0: // all roles on one variable
	case 1: // receiver = first operand, the others on a second variable
		c.Blocks = append(c.Blocks, mk("b1", rapid.IntRange(20, c10MaxDigits()).Draw(t, "n1")))
		for i := 2; i <= ar; i++ {
			c.Role[i] = 1
		}
	default: // receiver = last operand
		c.Blocks = append(c.Blocks, mk("b1", rapid.IntRange(20, c10MaxDigits()).Draw(t, "n1")))
		for i := 1; i < ar; i++ {
			c.Role[i] = 1
		}
		if ar == 1 {
			c.Role[1] = 0
		}
	}
	for i := range c.Blocks {
		if c.Op == "add" || c.Op == "fma" {
			c.Blocks[i].E = int64(len(c.Blocks[i].D)) // keep the exponent gap of sums small
		}
	}
	c.P = uint(len(c.Blocks[0].D)) + uint(rapid.IntRange(0, 40).Draw(t, "p"))
	if c.Op == "quo" || c.Op == "sqrt" {
		if lim := uint(quoPrecLimit()); c.P > lim {
			// keep the shared operand representable at the bounded precision
			if uint(len(c.Blocks[0].D)) >= lim {
				c.Blocks[0].D = c.Blocks[0].D[:lim-1] + "7"
			}
			c.P = lim
		}
	}
	c.Blocks[0].P, c.Blocks[0].M = c.P, c.M
	for i := 1; i < len(c.Blocks); i++ {
		c.Blocks[i].P, c.Blocks[i].M = uint(len(c.Blocks[i].D)), h.GenMode(t, "bm")
	}
	return c
}

func genC10(t *rapid.T) C10Case {
	if rapid.IntRange(0, 19).Draw(t, "roomy") == 0 {
		return genC10Roomy(t)
	}
	c := C10Case{M: h.GenMode(t, "zmode")}
	kind := rapid.IntRange(0, 9).Draw(t, "kind")
	switch {
	case kind <= 5:
		ops := []string{"add", "sub", "mul", "quo", "fma", "sqrt", "set", "neg", "abs", "setmantexp", "mantexp", "copy", "add", "mul", "quo", "fma"}
		c.Op = rapid.SampledFrom(ops).Draw(t, "op")
	case kind <= 7:
		c.Op = rapid.SampledFrom(c10Setters).Draw(t, "op")
	default:
		c.Op = "readonly"
		// F = 1: the binary floating-point accessors only (so that the zone of known finding F-10 can be excluded
		// by an input predicate without losing the other accessors on those values)
		c.F = uint64(rapid.IntRange(0, 2).Draw(t, "rofloat") / 2)
	}
	ar := c10Arith[c.Op]
	if c.Op == "readonly" {
		ar = 1
	}
	// set partition of the roles z, x, y, u: role i joins an earlier role's block or opens a new one
	c.Role = make([]int, ar+1)
	nblocks := 0
	for i := 0; i <= ar; i++ {
		if i == 0 && (ar == 0 || c.Op == "readonly" || rapid.IntRange(0, 2).Draw(t, "zalias") > 0) {
			c.Role[0] = -1 // receiver is a variable of its own
			continue
		}
		choice := rapid.IntRange(0, nblocks).Draw(t, fmt.Sprintf("part%d", i))
		if choice == nblocks {
			nblocks++
		}
		c.Role[i] = choice
	}
	// Role[0] >= 0 only if some operand shares its block
	if c.Role[0] >= 0 {
		shared := false
		for i := 1; i <= ar; i++ {
			if c.Role[i] == c.Role[0] {
				shared = true
			}
		}
		if !shared && ar > 0 {
			c.Role[1] = c.Role[0]
		}
	}
	// renumber blocks densely
	remap := map[int]int{}
	for i, b := range c.Role {
		if b < 0 {
			continue
		}
		if _, ok := remap[b]; !ok {
			remap[b] = len(remap)
		}
		c.Role[i] = remap[b]
	}
	nblocks = len(remap)
	maxD := 60
	if rapid.IntRange(0, 3).Draw(t, "big") == 0 {
		maxD = c10MaxDigits()
	}
	for b := 0; b < nblocks; b++ {
		s := h.GenAny(t, fmt.Sprintf("b%d", b), maxD)
		if c.Op == "sqrt" || c.Op == "readonly" {
			if c.Op == "sqrt" {
				s.Neg = false
			}
			if s.F == "f" {
				s.E = h.GenExpModerate(t, fmt.Sprintf("b%de", b), 3000)
				if lim := uint(len(s.D)) + 500; s.P > lim {
					s.P = lim
				}
			}
		}
		c.Blocks = append(c.Blocks, s)
	}
	// place exponents for sums
	blk := func(i int) *h.Spec { return &c.Blocks[c.Role[i]] }
	switch c.Op {
	case "add", "sub":
		if blk(1).F == "f" && blk(2).F == "f" && c.Role[1] != c.Role[2] {
			blk(2).E = genRelExp(t, *blk(1), len(blk(2).D), 10)
		}
	case "fma":
		x, y, u := blk(1), blk(2), blk(3)
		if x.F == "f" && y.F == "f" {
			if s := x.E + y.E; s > model.MaxExp-50 || s < model.MinExp+50 {
				x.E = int64(rapid.IntRange(-500, 500).Draw(t, "fx"))
				if c.Role[1] != c.Role[2] {
					y.E = int64(rapid.IntRange(-500, 500).Draw(t, "fy"))
				}
			}
			if u.F == "f" {
				pe := x.E + y.E
				if c.Role[3] == c.Role[1] || c.Role[3] == c.Role[2] {
					// u is x or y: the gap is dictated by the shared value; keep exponents small
					x.E = int64(rapid.IntRange(-100, 100).Draw(t, "fx2"))
					if c.Role[1] != c.Role[2] {
						y.E = int64(rapid.IntRange(-100, 100).Draw(t, "fy2"))
					}
				} else {
					u.E = genRelExp(t, h.Spec{F: "f", D: x.D + y.D, E: pe}, len(u.D), 10)
				}
			}
		}
	}
	// receiver precision: must hold the shared operand exactly when the receiver is an operand
	c.P = uint(rapid.IntRange(1, 80).Draw(t, "p"))
	if maxD > 60 {
		c.P = uint(rapid.IntRange(1, maxD).Draw(t, "pbig"))
	}
	if c.Role[0] >= 0 {
		b := &c.Blocks[c.Role[0]]
		if b.F == "f" && uint(len(b.D)) > c.P {
			c.P = uint(len(b.D)) + uint(rapid.IntRange(0, 10).Draw(t, "pfit"))
		}
		b.P, b.M = c.P, c.M
		if b.F != "f" && rapid.Bool().Draw(t, "p0") {
			// a special receiver may keep precision 0: then it takes the operands'
		}
	} else if c.Op != "readonly" {
		if rapid.IntRange(0, 3).Draw(t, "fresh") > 0 {
			prev := h.GenAny(t, "zprev", 400)
			if prev.F == "f" && uint(len(prev.D)) > c.P {
				prev.D = prev.D[:c.P]
				if prev.D[len(prev.D)-1] == '0' {
					prev.D = prev.D[:len(prev.D)-1] + "1"
				}
			}
			prev.P, prev.M = c.P, c.M
			c.ZPrev = &prev
		}
	}
	switch c.Op {
	case "setint64":
		c.I = big.NewInt(genInt64(t, "i")).String()
	case "setuint64":
		c.I = new(big.Int).SetUint64(genUint64(t, "u")).String()
	case "setint":
		c.I = genBigIntString(t, "i", 400)
	case "setrat":
		c.I = genBigIntString(t, "num", 60)
		c.S = rapid.SampledFrom([]string{"1", "3", "7", "8", "125", "99999", "1000000007"}).Draw(t, "den")
	case "setfloat64":
		c.F = genFloat64Bits(t, "f")
		if math.IsNaN(math.Float64frombits(c.F)) {
			c.F = math.Float64bits(1.5)
		}
	case "setfloat":
		c.F = rapid.Uint64().Draw(t, "fm")
		c.Exp = int64(rapid.IntRange(-300, 300).Draw(t, "fe"))
		c.S = rapid.SampledFrom([]string{"fin", "fin", "fin", "+inf", "-inf", "+0", "-0"}).Draw(t, "fk")
	case "parse":
		c.S = h.GenDecLiteral(t, "lit", 100, true).S
		if rapid.IntRange(0, 5).Draw(t, "inflit") == 0 {
			c.S = rapid.SampledFrom([]string{"Inf", "-Inf", "0x1.8p3", "0b101p-3", "1e", "abc"}).Draw(t, "fixed")
		}
	case "setinf":
		c.F = uint64(rapid.IntRange(0, 1).Draw(t, "neg"))
	case "setbitsexp":
		c.I = wordsToDigitStringMSF(h.GenWords(t, "w", rapid.IntRange(1, 4).Draw(t, "wn")))
		c.Exp = h.GenExp(t, "wexp")
	case "setmantexp":
		c.Exp = int64(rapid.IntRange(-80, 80).Draw(t, "exp"))
	case "gob":
		src := h.GenAny(t, "src", 200)
		c.Blocks = append(c.Blocks, src)
		c.Role = append(c.Role, len(c.Blocks)-1)
	}
	if c.Op == "quo" || c.Op == "sqrt" || c.Op == "setrat" || c.Op == "setfloat64" || c.Op == "setfloat" || c.Op == "parse" {
		if lim := uint(quoPrecLimit()); c.P > lim {
			c.P = lim
			if c.Role[0] >= 0 {
				// keep the shared operand representable
				b := &c.Blocks[c.Role[0]]
				if b.F == "f" && uint(len(b.D)) > c.P {
					b.D = b.D[:c.P-1] + "7"
				}
				b.P = c.P
			}
			if c.ZPrev != nil {
				if c.ZPrev.F == "f" && uint(len(c.ZPrev.D)) > c.P {
					c.ZPrev.D = c.ZPrev.D[:c.P-1] + "3"
				}
				c.ZPrev.P = c.P
			}
		}
	}
	return c
}

type c10Out struct {
	NaN  bool
	Snap h.Snap
	Ret  string // textual result of read-only operations / returned values
}

func (a c10Out) same(b c10Out) bool {
	if a.NaN != b.NaN || a.Ret != b.Ret {
		return false
	}
	if a.NaN {
		return true // "the value of z is undefined" after ErrNaN
	}
	return a.Snap.Malformed == "" && b.Snap.Malformed == "" && a.Snap.Val().Equal(b.Snap.Val()) &&
		a.Snap.Prec == b.Snap.Prec && a.Snap.Mode == b.Snap.Mode && a.Snap.Acc == b.Snap.Acc
}

func (a c10Out) String() string {
	if a.NaN {
		return "ErrNaN"
	}
	return fmt.Sprintf("%v ret=%q", a.Snap, h.FirstN(a.Ret, 200))
}

func readOnlyProbe(x *decimal.Decimal, floats bool) string {
	s := ""
	if floats {
		f64, a3 := x.Float64()
		f32, a4 := x.Float32()
		return fmt.Sprint(f64, a3, f32, a4, "|", x.Float(nil).Text('p', 0), "|", x.Float(new(big.Float).SetPrec(24).SetInf(true)).Text('p', 0))
	}
	for _, f := range []byte("eEfgGpb") {
		for _, p := range []int{-1, 0, 3} {
			s += x.Text(f, p) + "|"
		}
	}
	s += fmt.Sprintf("%v|%10.3e|%+.2f|%-12g|%015.4G|", x, x, x, x, x)
	s += fmt.Sprint(x.MinPrec(), x.IsInt(), x.IsInf(), x.IsZero(), x.Sign(), x.Signbit(), x.MantExp(nil), x.String())
	i64, a1 := x.Int64()
	u64, a2 := x.Uint64()
	s += fmt.Sprint("|", i64, a1, u64, a2)
	if i, a := x.Int(nil); i != nil {
		s += fmt.Sprint("|", i.String(), a)
	}
	if r, a := x.Rat(nil); r != nil {
		s += fmt.Sprint("|", r.String(), a)
	}
	b, _ := x.MarshalText()
	s += "|" + string(b)
	one := new(decimal.Decimal).SetInt64(1)
	s += fmt.Sprint("|", x.Cmp(one), one.Cmp(x), x.Cmp(x))
	return s
}

func c10Run(c C10Case, reference bool) (out c10Out) {
	ar := len(c.Role) - 1
	// build variables
	vars := make([]*decimal.Decimal, len(c.Blocks))
	ops := make([]*decimal.Decimal, ar+1)
	if reference {
		// every role gets a variable of its own, values deep-copied; histories cleaned
		for i := 1; i <= ar; i++ {
			s := c.Blocks[c.Role[i]]
			if s.Hist != "acc" {
				// (the operand's accuracy is a legitimate input of Copy/MantExp/SetMantExp:
				// they are documented to copy it)
				s.Hist = ""
			}
			ops[i] = s.Build()
		}
		ops[0] = mkRecv(c.P, c.M)
	} else {
		for b := range c.Blocks {
			vars[b] = c.Blocks[b].Build()
		}
		for i := 1; i <= ar; i++ {
			ops[i] = vars[c.Role[i]]
		}
		switch {
		case c.Role[0] >= 0:
			ops[0] = vars[c.Role[0]]
		case c.ZPrev != nil:
			ops[0] = c.ZPrev.Build()
		default:
			ops[0] = mkRecv(c.P, c.M)
		}
	}
	z := ops[0]
	out.NaN = h.CatchNaN(func() {
		switch c.Op {
		case "add":
			z.Add(ops[1], ops[2])
		case "sub":
			z.Sub(ops[1], ops[2])
		case "mul":
			z.Mul(ops[1], ops[2])
		case "quo":
			z.Quo(ops[1], ops[2])
		case "fma":
			z.FMA(ops[1], ops[2], ops[3])
		case "sqrt":
			z.Sqrt(ops[1])
		case "set":
			z.Set(ops[1])
		case "neg":
			z.Neg(ops[1])
		case "abs":
			z.Abs(ops[1])
		case "copy":
			z.Copy(ops[1])
		case "setmantexp":
			z.SetMantExp(ops[1], int(c.Exp))
		case "mantexp":
			out.Ret = fmt.Sprint(ops[1].MantExp(z))
		case "readonly":
			out.Ret = readOnlyProbe(ops[1], c.F == 1)
		case "setint64":
			z.SetInt64(bigOf(c.I).Int64())
		case "setuint64":
			z.SetUint64(bigOf(c.I).Uint64())
		case "setint":
			z.SetInt(bigOf(c.I))
		case "setrat":
			z.SetRat(ratOf(c.I, c.S))
		case "setfloat64":
			z.SetFloat64(math.Float64frombits(c.F))
		case "setfloat":
			z.SetFloat(bigFloatOf(C04Case{F: c.F, FE: int(c.Exp), FP: 80, FK: c.S}))
		case "parse":
			d, b, err := z.Parse(c.S, 0)
			out.Ret = fmt.Sprint(d != nil, b, err != nil)
			if err != nil {
				// the value of z is undefined after an error; it must still be canonical
				if r := h.Read(z); r.Malformed != "" {
					panic(h.Failf("malformed", "receiver after a rejected literal: %v", r))
				}
				*z = *mkRecv(c.P, c.M)
			}
		case "setinf":
			z.SetInf(c.F == 1)
		case "setbitsexp":
			z.SetBitsExp(digitStringToWordsLE(c.I), c.Exp)
		case "gob":
			b, err := ops[1].GobEncode()
			if err != nil {
				panic(h.Failf("gob", "GobEncode: %v", err))
			}
			out.Ret = fmt.Sprint(z.GobDecode(b))
		default:
			panic(h.BuildError{Msg: "c10: op " + c.Op})
		}
	})
	out.Snap = h.Read(z)
	return
}

func checkC10(c C10Case, o *h.Obs) *h.Fail {
	o.Label(c.Op)
	shape := "distinct"
	seen := map[int]int{}
	for i, b := range c.Role {
		if b < 0 {
			continue
		}
		if j, ok := seen[b]; ok {
			if shape == "distinct" {
				shape = ""
			}
			shape += fmt.Sprintf("%c=%c ", "zxyu"[j], "zxyu"[i])
		} else {
			seen[b] = i
		}
	}
	o.Label("shape:" + shape)
	dirty := c.ZPrev != nil
	for _, b := range c.Blocks {
		if b.Hist != "" {
			dirty = true
		}
	}
	if dirty {
		o.Label("dirty-variable")
	}
	if shape != "distinct" || dirty {
		o.NonTrivial()
	}
	ref := c10Run(c, true)
	got := c10Run(c, false)
	if got.Snap.Malformed != "" {
		return h.Failf("malformed", "%s: %v", c.Op, got.Snap)
	}
	if !ref.same(got) {
		return h.Failf("differs", "%s shape %q prec %d %v zprev=%v blocks=%v:\n fresh distinct variables: %v\n aliased / reused:         %v", c.Op, shape, c.P, model.Mode(c.M), c.ZPrev, c.Blocks, ref, got)
	}
	return nil
}

const ruleC10 = "rapid-generated (operation, one value per variable, set partition of the roles z,x,y[,u] onto variables, receiver history): every aliasing shape (z=x, z=y, x=y, z=x=y, z=u, x=u, all equal, ...) for Add/Sub/Mul/Quo/FMA/Sqrt/Set/Neg/Abs/Copy/SetMantExp/MantExp; un-aliased receivers that previously held zero / infinity / shorter or longer finite values (stale exponent, large capacity with stale words, accuracy != Exact); setters (SetInt64/SetUint64/SetInt/SetRat/SetFloat64/SetFloat/Parse/SetInf/SetBitsExp/GobDecode) into such receivers; read-only probes (Text in every format, Format verbs, MinPrec, IsInt, Sign, Int64, Uint64, Float64, Float32, Int, Rat, MarshalText, Cmp) on dirty operands. Metamorphic oracle: the same operation on deep copies with a fresh receiver of the same precision and mode must give the identical outcome (value, sign, accuracy, precision, mode, returned values, or ErrNaN). Operand sizes up to 1500 (quick) / 5700 (thorough) digits cross the Karatsuba and temp-allocation decisions. Non-trivial = a non-trivial partition or a non-fresh variable."

var propC10 = &h.Prop[C10Case]{ID: "C10", Rule: ruleC10, Gen: genC10, Check: checkC10, Matchers: map[string]func(C10Case) bool{
	"fma-product-exp-out-of-range": func(c C10Case) bool {
		return c.Op == "fma" && fmaProductOutOfRange(C03Case{X: c.Blocks[c.Role[1]], Y: c.Blocks[c.Role[2]]})
	}}}

func TestC10(t *testing.T)       { propC10.Search(t) }
func TestC10Replay(t *testing.T) { propC10.Replay(t) }
