package props

import (
	"bytes"
	"encoding/json"
	"fmt"
	"math"
	"math/big"
	"os"
	"os/exec"
	"runtime/debug"
	"sort"
	"strings"
	"testing"
	"time"

	"github.com/db47h/decimal"
	"pgregory.net/rapid"

	"verif/h"
	"verif/model"
)

// C14: integer and rational conversions are exact, with documented saturation.

type C14Case struct {
	Op  string `json:"op"` // out | setint setint64 setuint64 setrat newdecimal
	X   h.Spec `json:"x,omitempty"`
	I   string `json:"i,omitempty"`
	Den string `json:"den,omitempty"`
	Exp int64  `json:"exp,omitempty"`
	P   uint   `json:"p"`
	M   uint8  `json:"m"`
	// Stale > 0: the receiver held an all-nines value of that many words before (its buffer is reused, every word of it
	// non-zero), then was emptied with SetPrec(0)
	Stale int `json:"stale,omitempty"`
}

var c14Anchors = []string{
	"9223372036854775807", "9223372036854775808", "18446744073709551615", "18446744073709551616",
	"10000000000000000000", "9999999999999999999", "100000000000000000000000000000000000000", "99999999999999999999999999999999999999",
	"1", "10", "4294967296", "1000000000000000000",
}

func genNearAnchor(t *rapid.T) h.Spec {
	a := bigOf(rapid.SampledFrom(c14Anchors).Draw(t, "anchor"))
	a.Add(a, big.NewInt(int64(rapid.IntRange(-2, 2).Draw(t, "delta"))))
	if a.Sign() <= 0 {
		a.SetInt64(1)
	}
	v := model.FromInt(a, 0)
	if rapid.IntRange(0, 2).Draw(t, "frac") == 0 {
		fr := model.MkFinite(false, h.GenDigitsN(t, "fr", rapid.IntRange(1, 3).Draw(t, "frn")), int64(-rapid.IntRange(0, 3).Draw(t, "fre")))
		if rapid.Bool().Draw(t, "frneg") && a.Cmp(big.NewInt(1)) > 0 {
			fr = fr.Negate()
		}
		v = model.AddX(v, fr).Val
	}
	v.Neg = rapid.Bool().Draw(t, "neg")
	return h.SpecOf(v, h.GenPrecFor(t, "xp", len(v.Digits)), h.GenMode(t, "xm"))
}

func genC14(t *rapid.T) C14Case {
	c := C14Case{M: h.GenMode(t, "zmode")}
	c.Op = rapid.SampledFrom([]string{"out", "out", "out", "setint", "setint64", "setuint64", "setrat", "newdecimal"}).Draw(t, "op")
	switch rapid.IntRange(0, 5).Draw(t, "pcls") {
	case 0:
		c.P = 0
	case 1:
		c.P = uint(rapid.IntRange(1, 4).Draw(t, "p"))
	case 2:
		c.P = uint(rapid.SampledFrom([]int{18, 19, 20, 21, 37, 38, 39}).Draw(t, "p"))
	default:
		c.P = uint(rapid.IntRange(1, 80).Draw(t, "p"))
	}
	switch c.Op {
	case "out":
		switch rapid.IntRange(0, 4).Draw(t, "xk") {
		case 0, 1:
			c.X = genNearAnchor(t)
		case 2:
			c.X = h.GenAny(t, "x", 3000)
			if c.X.F == "f" {
				c.X.E = h.GenExpModerate(t, "xe", 5000)
			}
		case 3:
			// integers with trailing zeros / values with the point inside the digits
			c.X = h.GenFinite(t, "x", 200)
			c.X.E = int64(len(c.X.D)) + int64(rapid.IntRange(-len(c.X.D)-3, 25).Draw(t, "pt"))
		default:
			c.X = h.GenAny(t, "x", 60) // any exponent: Int64/Uint64/IsInt only
		}
	case "setint":
		c.I = genBigIntString(t, "i", 3000)
		if rapid.Bool().Draw(t, "stale") {
			c.Stale = rapid.IntRange(1, 200).Draw(t, "stalewords")
		}
		if h.Rare(t, "roundint", 6) {
			// multiples of large powers of ten: long runs of zero words at the low end of the converted integer
			k := rapid.IntRange(1, 2600).Draw(t, "zeros")
			c.I = h.GenDigitsN(t, "head", rapid.IntRange(1, 40).Draw(t, "headn")) + strings.Repeat("0", k)
			c.I = strings.TrimLeft(c.I, "0")
			if c.I == "" {
				c.I = "0"
			}
			if rapid.Bool().Draw(t, "rneg") && c.I != "0" {
				c.I = "-" + c.I
			}
		}
		if rapid.IntRange(0, 2).Draw(t, "anch") == 0 {
			a := bigOf(rapid.SampledFrom(c14Anchors).Draw(t, "anchor"))
			a.Add(a, big.NewInt(int64(rapid.IntRange(-2, 2).Draw(t, "delta"))))
			if rapid.Bool().Draw(t, "aneg") {
				a.Neg(a)
			}
			c.I = a.String()
		}
	case "setint64":
		c.I = big.NewInt(genInt64(t, "i")).String()
	case "setuint64":
		c.I = new(big.Int).SetUint64(genUint64(t, "u")).String()
	case "newdecimal":
		c.I = big.NewInt(genInt64(t, "i")).String()
		switch rapid.IntRange(0, 5).Draw(t, "expcls") {
		case 0, 1:
			c.Exp = int64(rapid.IntRange(-60, 60).Draw(t, "exp"))
		case 2:
			c.Exp = model.MaxExp - int64(rapid.IntRange(-3, 45).Draw(t, "exp"))
		case 3:
			c.Exp = model.MinExp - int64(rapid.IntRange(-45, 25).Draw(t, "exp"))
		case 4:
			c.Exp = rapid.SampledFrom([]int64{math.MaxInt64, math.MinInt64, math.MaxInt64 - 19, math.MinInt64 + 19, 1 << 62, -1 << 62, math.MaxInt64 - 1}).Draw(t, "expedge")
		default:
			c.Exp = rapid.Int64().Draw(t, "exp")
		}
		c.P, c.M = 0, 0
	case "setrat":
		c.I = genBigIntString(t, "num", 300)
		if c.P > 0 && rapid.IntRange(0, 3).Draw(t, "boundary") == 0 {
			// x = M +- 1/D with M sitting exactly on a rounding boundary of the receiver's precision (a tie, or a
			// representable value) and D a long denominator: numerator and denominator both far longer than the precision
			be := rapid.IntRange(-5, 40).Draw(t, "be")
			if rapid.IntRange(0, 2).Draw(t, "bfar") == 0 {
				// M far to the left of the point: the numerator then has hundreds of digits more than the denominator and
				// the precision together (the +- 1/D sits that far below the rounding position)
				be = int(c.P) + rapid.IntRange(50, 400).Draw(t, "be2")
			}
			m := model.MkFinite(false, h.GenRoundDigits(t, "bm", int(c.P)), int64(be))
			if rapid.Bool().Draw(t, "bexact") {
				m = model.MkFinite(false, h.GenDigitsN(t, "bm2", int(c.P)), m.Exp)
			}
			var d *big.Int
			switch rapid.IntRange(0, 3).Draw(t, "bden") {
			case 3:
				// 1/D thousands of digits below the rounding position (10^k + 1, k up to 3000): whatever is cut off an
				// operand "because digits that far down cannot matter" still decides the direction
				d = new(big.Int).Exp(big.NewInt(10), big.NewInt(int64(rapid.IntRange(200, 3000).Draw(t, "bk"))), nil)
				d.Add(d, big.NewInt(int64(rapid.SampledFrom([]int{1, 3, 7, 9}).Draw(t, "bk1"))))
			case 0:
				d = new(big.Int).Exp(big.NewInt(3), big.NewInt(int64(rapid.IntRange(60, 200).Draw(t, "b3"))), nil)
			case 1:
				d = new(big.Int).Exp(big.NewInt(7), big.NewInt(int64(rapid.IntRange(40, 120).Draw(t, "b7"))), nil)
			default:
				d = bigOf(h.GenDigitsN(t, "bd", rapid.IntRange(40, 150).Draw(t, "bdn")))
				d.SetBit(d, 0, 1)
			}
			r := model.ToRat(m)
			eps := new(big.Rat).SetFrac(big.NewInt(1), d)
			if rapid.Bool().Draw(t, "bminus") {
				r.Sub(r, eps)
			} else {
				r.Add(r, eps)
			}
			if rapid.Bool().Draw(t, "bneg") {
				r.Neg(r)
			}
			c.I, c.Den = r.Num().String(), r.Denom().String()
			return c
		}
		switch rapid.IntRange(0, 3).Draw(t, "dencls") {
		case 0:
			v := new(big.Int).Exp(big.NewInt(2), big.NewInt(int64(rapid.IntRange(0, 80).Draw(t, "i2"))), nil)
			v.Mul(v, new(big.Int).Exp(big.NewInt(5), big.NewInt(int64(rapid.IntRange(0, 80).Draw(t, "j5"))), nil))
			c.Den = v.String()
		case 1:
			c.Den = rapid.SampledFrom([]string{"1", "3", "7", "9", "11", "13", "99", "999999999999999999999", "3000", "7000000"}).Draw(t, "den")
		default:
			c.Den = h.GenDigits(t, "den", 300) + zeros(rapid.SampledFrom([]int{0, 0, 3}).Draw(t, "dtz"))
		}
	}
	return c
}

// truncInt returns the integer part of finite/zero v (toward zero) as a big.Int (|Exp| bounded by the caller) and whether v is an integer.
func truncInt(v model.Val) (*big.Int, bool) {
	if v.Form != model.Finite || v.Exp <= 0 {
		return new(big.Int), v.Form == model.Zero
	}
	d := v.Digits
	isInt := int64(len(d)) <= v.Exp
	if isInt {
		d += strings.Repeat("0", int(v.Exp)-len(d))
	} else {
		d = d[:v.Exp]
	}
	i, _ := new(big.Int).SetString(d, 10)
	if v.Neg {
		i.Neg(i)
	}
	return i, isInt
}

func accOfTrunc(v model.Val, isInt bool) model.Acc {
	switch {
	case isInt:
		return model.Exact
	case v.Neg:
		return model.Above
	}
	return model.Below
}

func checkC14(c C14Case, o *h.Obs) *h.Fail {
	if c.Op == "grid:giant-mantissa" {
		return c14GiantMantissaAccuracy()
	}
	o.Label(c.Op)
	if c.Op == "out" {
		return checkC14Out(c, o)
	}
	if c.Op == "rat-probe" {
		return c14RatProbe(c, o)
	}
	if c.Op == "setint-probe" {
		return c14SetIntProbe(c, o)
	}
	z := mkRecv(c.P, c.M)
	if c.Stale > 0 {
		w := make([]decimal.Word, c.Stale)
		for i := range w {
			w[i] = decimal.Word(h.Base - 1)
		}
		z = new(decimal.Decimal).SetPrec(uint(19 * c.Stale))
		z.SetBitsExp(w, 0)
		z.Neg(z)
		z.SetPrec(0).SetMode(decimal.RoundingMode(c.M)).SetPrec(c.P)
		o.Label("receiver-with-stale-buffer")
	}
	var exact model.X
	wantPrec := []uint{c.P}
	digitsOf := func(i *big.Int) uint {
		if i.Sign() == 0 {
			return 0
		}
		return uint(len(new(big.Int).Abs(i).String()))
	}
	umax := func(a ...uint) uint {
		m := uint(0)
		for _, x := range a {
			if x > m {
				m = x
			}
		}
		return m
	}
	mode := model.Mode(c.M)
	switch c.Op {
	case "setint":
		i := bigOf(c.I)
		z.SetInt(i)
		exact = model.X{Val: model.FromInt(i, 0)}
		if c.P == 0 {
			wantPrec = []uint{umax(34, digitsOf(i))}
		}
		if i.BitLen() > 64 {
			o.NonTrivial()
		}
	case "setint64":
		i := bigOf(c.I)
		z.SetInt64(i.Int64())
		exact = model.X{Val: model.FromInt(i, 0)}
		if c.P == 0 {
			wantPrec = []uint{34}
		}
	case "setuint64":
		i := bigOf(c.I)
		z.SetUint64(i.Uint64())
		exact = model.X{Val: model.FromInt(i, 0)}
		if c.P == 0 {
			wantPrec = []uint{34}
		}
	case "newdecimal":
		i := bigOf(c.I)
		z = decimal.NewDecimal(i.Int64(), int(c.Exp))
		me := c.Exp // the model's exponent arithmetic is int64: clamp far outside the range (same saturated result)
		if me > 1<<40 {
			me = 1 << 40
		} else if me < -(1 << 40) {
			me = -(1 << 40)
		}
		exact = model.X{Val: model.FromInt(i, me)}
		wantPrec = []uint{34}
		mode = model.ToNearestEven
		if i.Sign() != 0 && (exact.Exp > model.MaxExp || exact.Exp < model.MinExp) {
			o.Label("newdecimal:saturates")
			o.NonTrivial()
		}
	case "setrat":
		r := ratOf(c.I, c.Den)
		z.SetRat(r)
		if c.P == 0 {
			if r.IsInt() {
				wantPrec = []uint{umax(34, digitsOf(r.Num()))}
			} else {
				wantPrec = []uint{umax(34, digitsOf(r.Num()), digitsOf(r.Denom())), umax(34, uint(r.Num().BitLen()), uint(r.Denom().BitLen()))}
			}
		}
		exact = model.FromRat(r, uint64(z.Prec())+3)
		o.NonTrivial()
	default:
		return h.Failf("bad-case", "op %q", c.Op)
	}
	got := h.Read(z)
	if got.Malformed != "" {
		return h.Failf("malformed", "%s: %v", c.Op, got)
	}
	okPrec := false
	for _, p := range wantPrec {
		if got.Prec == p {
			okPrec = true
		}
	}
	if !okPrec {
		return h.Failf("prec", "%s(%s/%s) into precision %d: precision %d, want %v", c.Op, h.FirstN(c.I, 80), h.FirstN(c.Den, 80), c.P, got.Prec, wantPrec)
	}
	if got.Mode != uint8(mode) {
		return h.Failf("mode", "%s: mode %v want %v", c.Op, model.Mode(got.Mode), mode)
	}
	var want model.Val
	var wacc model.Acc
	if exact.Form == model.Zero {
		want, wacc = exact.Val, model.Exact
	} else {
		want, wacc = model.Round(exact, uint64(got.Prec), mode)
	}
	if wacc != model.Exact {
		o.Label(c.Op + ":rounded")
		o.NonTrivial()
	}
	if !got.Val().Equal(want) {
		return h.Failf("value", "%s(%s/%s, exp %d) at precision %d %v: got %v want %v", c.Op, h.FirstN(c.I, 80), h.FirstN(c.Den, 80), c.Exp, got.Prec, mode, got.Val(), want)
	}
	if model.Acc(got.Acc) != wacc {
		return h.Failf("acc", "%s(%s/%s, exp %d): value %v accuracy %v want %v", c.Op, h.FirstN(c.I, 80), h.FirstN(c.Den, 80), c.Exp, got.Val(), model.Acc(got.Acc), wacc)
	}
	return nil
}

// ratSpanBeyondInt32 is the zone of known finding F-36: Rat forms 19*len(mant) - exp in int32, which wraps for values
// below about 10^(19*words - 2^31). (Mantissas as Spec.Build makes them: minimal unless a history pads them, so the
// zone is taken one word wider than the minimal mantissa needs.)
func ratSpanBeyondInt32(c C14Case) bool {
	if c.Op != "out" && c.Op != "rat-probe" || c.X.F != "f" {
		return false
	}
	words := int64(len(c.X.D)+18)/19 + 1
	return 19*words-c.X.E > math.MaxInt32
}

// c14RatProbe calls Rat on a value whose denominator has more than two billion digits. No machine finishes that
// conversion, so the call runs in a child process that is killed after a few seconds: a panic in that time is a
// failure (nothing but ErrNaN may panic), a result in that time cannot be right either, and a child that is still
// computing says nothing (a time budget is never a verdict).
func c14RatProbe(c C14Case, o *h.Obs) *h.Fail {
	enc, _ := json.Marshal(c.X)
	cmd := exec.Command(os.Args[0], "-test.run=^TestC14RatChild$", "-test.timeout=120s")
	cmd.Env = append(os.Environ(), "VERIF_C14_RAT_CASE="+string(enc))
	var out bytes.Buffer
	cmd.Stdout, cmd.Stderr = &out, &out
	if err := cmd.Start(); err != nil {
		return h.Failf("bad-case", "cannot start the child process: %v", err)
	}
	done := make(chan error, 1)
	go func() { done <- cmd.Wait() }()
	select {
	case <-done:
	case <-time.After(8 * time.Second):
		cmd.Process.Kill()
		<-done
		o.Label("rat-probe:still-computing-when-killed")
		return nil
	}
	o.NonTrivial()
	text := out.String()
	if i := strings.Index(text, "panic:"); i >= 0 {
		return h.Failf("rat-panic", "Rat(%v) %s", c.X.Val(), h.FirstN(strings.SplitN(text[i:], "\n", 2)[0], 200))
	}
	if strings.Contains(text, "RAT-RETURNED") {
		return h.Failf("rat", "Rat(%v) returned within seconds: a denominator of more than 2^31 digits cannot have been built", c.X.Val())
	}
	return h.Failf("bad-case", "child process: %s", h.FirstN(text, 300))
}

// TestC14RatChild is the child side of c14RatProbe.
func TestC14RatChild(t *testing.T) {
	enc := os.Getenv("VERIF_C14_RAT_CASE")
	if enc == "" {
		t.Skip("only run as a child of the rat-probe case")
	}
	if enc == "setint:2^(2^32-1)" {
		v := new(big.Int).Lsh(big.NewInt(1), 1<<32-1)
		z := new(decimal.Decimal).SetPrec(40).SetMode(decimal.ToZero).SetInt(v)
		fmt.Printf("SETINT-RETURNED zero=%v exp=%d acc=%v\n", z.IsZero(), z.MantExp(nil), z.Acc())
		return
	}
	var sp h.Spec
	if err := json.Unmarshal([]byte(enc), &sp); err != nil {
		t.Fatal(err)
	}
	x := sp.Build()
	r, acc := x.Rat(nil)
	fmt.Println("RAT-RETURNED", r != nil, acc)
}

// c14SetIntProbe: SetInt of 2^(2^32-1), an integer of 2^32 bits and 1292913987 digits, at precision 40. The conversion
// is quadratic in the integer's length and finishes on no machine, so it runs in a child process that is killed after a
// few seconds, like c14RatProbe: an answer within that time is checked (a zero is wrong, so is any exponent but
// 1292913987), a child that is still computing says nothing.
func c14SetIntProbe(c C14Case, o *h.Obs) *h.Fail {
	cmd := exec.Command(os.Args[0], "-test.run=^TestC14RatChild$", "-test.timeout=120s")
	cmd.Env = append(os.Environ(), "VERIF_C14_RAT_CASE=setint:2^(2^32-1)")
	var out bytes.Buffer
	cmd.Stdout, cmd.Stderr = &out, &out
	if err := cmd.Start(); err != nil {
		return h.Failf("bad-case", "cannot start the child process: %v", err)
	}
	done := make(chan error, 1)
	go func() { done <- cmd.Wait() }()
	select {
	case <-done:
	case <-time.After(12 * time.Second):
		cmd.Process.Kill()
		<-done
		o.Label("setint-probe:still-computing-when-killed")
		return nil
	}
	o.NonTrivial()
	text := out.String()
	if i := strings.Index(text, "SETINT-RETURNED"); i >= 0 {
		line := strings.SplitN(text[i:], "\n", 2)[0]
		if !strings.Contains(line, "zero=false exp=1292913987 ") {
			return h.Failf("setint-huge", "SetInt(2^(2^32-1)) at precision 40 ToZero returned %q; the value is 0.15516...e1292913987", line)
		}
		return nil
	}
	if i := strings.Index(text, "panic:"); i >= 0 {
		return h.Failf("setint-panic", "SetInt(2^(2^32-1)) %s", h.FirstN(strings.SplitN(text[i:], "\n", 2)[0], 200))
	}
	return h.Failf("bad-case", "child process: %s", h.FirstN(text, 300))
}

func checkC14Out(c C14Case, o *h.Obs) *h.Fail {
	x := c.X.Build()
	v := c.X.Val()
	before := h.Read(x)
	moderate := v.Form != model.Finite || v.Exp <= 1<<20+64 && v.Exp >= -(1<<20+64) // (generated exponents stay within 5000; the enumerated sizes go to 630000 digits)
	// IsInt / MinPrec
	wantIsInt := v.Form == model.Zero || v.Form == model.Finite && int64(len(v.Digits)) <= v.Exp
	if g := x.IsInt(); g != wantIsInt {
		return h.Failf("isint", "IsInt(%v) = %v", v, g)
	}
	if g := x.MinPrec(); g != uint(len(v.Digits)) {
		return h.Failf("minprec", "MinPrec(%v) = %d", v, g)
	}
	// Int64 / Uint64 for every exponent
	var ti *big.Int
	var isInt bool
	huge := v.Form == model.Finite && v.Exp > 25
	if !huge {
		ti, isInt = truncInt(v)
	}
	if v.Form == model.Finite && !isInt && !huge {
		o.Label("fractional")
		o.NonTrivial()
	}
	{
		gi, ga := x.Int64()
		var wi int64
		var wa model.Acc
		switch {
		case v.Form == model.Inf && v.Neg, huge && v.Neg, !huge && v.Form == model.Finite && ti.Cmp(big.NewInt(math.MinInt64)) < 0:
			wi, wa = math.MinInt64, model.Above
			o.Label("int64:saturates")
			o.NonTrivial()
		case v.Form == model.Inf, huge, !huge && v.Form == model.Finite && ti.Cmp(big.NewInt(math.MaxInt64)) > 0:
			wi, wa = math.MaxInt64, model.Below
			o.Label("int64:saturates")
			o.NonTrivial()
		default:
			wi, wa = ti.Int64(), accOfTrunc(v, isInt)
		}
		if gi != wi || model.Acc(ga) != wa {
			return h.Failf("int64", "Int64(%v) = (%d, %v) want (%d, %v)", v, gi, model.Acc(ga), wi, wa)
		}
	}
	{
		gu, ga := x.Uint64()
		var wu uint64
		var wa model.Acc
		maxU := new(big.Int).SetUint64(math.MaxUint64)
		switch {
		case v.Form == model.Zero:
			wu, wa = 0, model.Exact
		case v.Neg:
			wu, wa = 0, model.Above
		case v.Form == model.Inf, huge, ti.Cmp(maxU) > 0:
			wu, wa = math.MaxUint64, model.Below
			o.Label("uint64:saturates")
			o.NonTrivial()
		default:
			wu, wa = ti.Uint64(), accOfTrunc(v, isInt)
		}
		if gu != wu || model.Acc(ga) != wa {
			return h.Failf("uint64", "Uint64(%v) = (%d, %v) want (%d, %v)", v, gu, model.Acc(ga), wu, wa)
		}
	}
	if moderate {
		ti, isInt = truncInt(v)
		// Int, with and without a destination
		// destinations: none, a small one, and one that held a much longer value before (all ones: whatever is
		// not overwritten shows)
		longer := new(big.Int).Lsh(big.NewInt(1), uint(64*(len(v.Digits)/19+4)))
		longer.Sub(longer, big.NewInt(1))
		longerR := new(big.Rat).SetFrac(new(big.Int).Set(longer), new(big.Int).Add(longer, big.NewInt(2)))
		for _, dst := range []*big.Int{nil, big.NewInt(-12345), longer} {
			gi, ga := x.Int(dst)
			if v.Form == model.Inf {
				wa := model.Below
				if v.Neg {
					wa = model.Above
				}
				if gi != nil || model.Acc(ga) != wa {
					return h.Failf("int", "Int(%v) = (%v, %v) want (nil, %v)", v, gi, model.Acc(ga), wa)
				}
				continue
			}
			if gi == nil || gi.Cmp(ti) != 0 || model.Acc(ga) != accOfTrunc(v, isInt) {
				return h.Failf("int", "Int(%v) = (%v, %v) want (%v, %v)", v, gi, model.Acc(ga), ti, accOfTrunc(v, isInt))
			}
			if dst != nil && gi != dst {
				return h.Failf("int", "Int(dst) did not return dst")
			}
		}
		for _, dst := range []*big.Rat{nil, big.NewRat(7, 3), longerR} {
			gr, ga := x.Rat(dst)
			if v.Form == model.Inf {
				wa := model.Below
				if v.Neg {
					wa = model.Above
				}
				if gr != nil || model.Acc(ga) != wa {
					return h.Failf("rat", "Rat(%v) = (%v, %v) want (nil, %v)", v, gr, model.Acc(ga), wa)
				}
				continue
			}
			if wr := model.ToRat(v); gr == nil || gr.Cmp(wr) != 0 || ga != 0 {
				return h.Failf("rat", "Rat(%v) = (%v, %v) want (%v, Exact)", v, gr, model.Acc(ga), wr)
			}
		}
	}
	if after := h.Read(x); !after.SameAll(before) {
		return h.Failf("operand-modified", "conversions changed x: %v -> %v", before, after)
	}
	return nil
}

const ruleC14 = "rapid-generated cases. (out) Decimals within 2 units of 2^63, 2^64, 10^19, 10^38, 2^32, 10^18 (with and without a 1-3 digit fractional tail, both signs), values with the point anywhere inside or beyond their digits, generic values up to 3000 digits with |exp| <= 5000, and values with any exponent (Int64/Uint64/IsInt/MinPrec only): Int (with and without destination), Int64, Uint64, Rat, IsInt, MinPrec against the exact value (truncation toward zero, accuracy Exact iff integer else sign of the discarded part, documented saturation incl. (0, Above) for negative Uint64 and nil for infinities); the operand must be unchanged. (in) SetInt (to 3000 digits, anchors +-2), SetInt64, SetUint64 (edges and uniform), SetRat (terminating / repeating / long denominators), NewDecimal (exponents over the whole int range incl. MaxInt64/MinInt64): value = exact argument rounded once, accuracy, precision rule for precision-0 receivers (both documented readings accepted for SetRat), NewDecimal saturating to +-0 / +-Inf. Enumerated completely on every run (TestC14Grid): SetInt and Int/Rat/IsInt/MinPrec of 10^d-1, 10^d (and 10^d+12345 for every 7th d) for every d up to 2500 (quick) / 6000 (thorough) digits, SetInt of 2^b-1 and 2^b for b up to 8800 / 20000 bits and of 2^b+12345 for a dozen b between 2^16 and 2^18 (2^20) - size-estimate defects in the integer converters show only at particular lengths. SetRat also gets values M +- 1/D with M exactly on a rounding boundary of the receiver's precision and D a 40-150 digit denominator. Non-trivial = fractional or saturating value, argument wider than 64 bits, rounded result, NewDecimal leaving the range, any SetRat."

// TestC14Grid enumerates integer sizes completely: "magic length" defects in the binary<->decimal
// integer converters (size estimates in SetInt/setNat and Int/decToNat) only show at particular digit
// or bit counts.
func TestC14Grid(t *testing.T) {
	defer h.WriteStats("C14")
	n := 0
	run := func(c C14Case) {
		o := &h.Obs{}
		if f := propC14.SafeCheck(c, o); f != nil {
			h.ReportGridFail(t, "C14", f, mustJSON(c))
		}
		h.RecordGrid("C14", o, c)
		n++
	}
	maxDigits, maxBits := 2500, 8800
	if h.Thorough() {
		maxDigits, maxBits = 6000, 20000
	}
	ten := big.NewInt(10)
	p := big.NewInt(1)
	for d := 0; d <= maxDigits; d++ {
		// 10^d - 1 (d nines), 10^d, 10^d + 12345: through SetInt (exact, precision 0) and back through Int
		for _, delta := range []int64{-1, 0, 12345} {
			v := new(big.Int).Add(p, big.NewInt(delta))
			if v.Sign() <= 0 {
				continue
			}
			if delta == 12345 && d%7 != 0 {
				continue
			}
			run(C14Case{Op: "setint", I: v.String(), P: 0, M: 0})
			if d%5 == 0 {
				run(C14Case{Op: "setint", I: v.String(), P: 0, M: 0, Stale: d/19 + 7})
				run(C14Case{Op: "setint", I: v.String(), P: uint(d/2 + 1), M: uint8(d % 6), Stale: d/19 + 7})
			}
			vv := model.FromInt(v, 0)
			run(C14Case{Op: "out", X: h.SpecOf(vv, uint(len(vv.Digits)), 0)})
		}
		p.Mul(p, ten)
	}
	two := big.NewInt(1)
	for b := 0; b <= maxBits; b++ {
		// 2^b - 1 (b one bits) and 2^b
		if b%3 == 0 || b < 700 {
			v := new(big.Int).Sub(two, big.NewInt(1))
			if v.Sign() > 0 {
				run(C14Case{Op: "setint", I: v.String(), P: 0, M: 0})
			}
			run(C14Case{Op: "setint", I: two.String(), P: uint(1 + b%40), M: uint8(b % 6)})
		}
		two.Lsh(two, 1)
	}
	// a handful of very large integers: size estimates computed in 32-bit arithmetic wrap far above the dense grid
	huge := []uint{65535, 65536, 65537, 131071, 131072, 131073, 142675, 142676, 142677, 200003, 262143, 262144, 262145}
	if h.Thorough() {
		huge = append(huge, 524287, 524288, 524289, 1000003, 1048576)
	}
	for _, b := range huge {
		v := new(big.Int).Lsh(big.NewInt(1), b)
		v.Add(v, big.NewInt(12345))
		run(C14Case{Op: "setint", I: v.String(), P: 0, M: 0})
		run(C14Case{Op: "setint", I: v.String(), P: 40, M: 2})
	}
	// Sizes at which a result barely needs one more word: the conversions allocate their result from an estimate
	// (digits*log2(10) bits, bits*log10(2) digits); an estimate that is a hair too small only shows where the true
	// size lies just above a word boundary, and the larger the number the smaller the hair that matters. Ranked by
	// (distance above the boundary) / size, the tightest sizes up to 190000 digits (quick) / 630000 (thorough), with
	// the all-nines / all-ones value that fills the top word the most.
	maxD, maxB, keep := 190000, 1<<20-1<<18, 14
	if h.Thorough() {
		maxD, maxB, keep = 630000, 1<<21, 24
	}
	type cand struct {
		size int
		rel  float64
	}
	pick := func(max int, per float64, word float64) []int {
		var cs []cand
		for k := 40; k <= max; k++ {
			v := float64(k) * per
			t := v - word*math.Floor(v/word) // position inside the top word, in bits or digits
			cs = append(cs, cand{k, t / v})
		}
		sort.Slice(cs, func(i, j int) bool { return cs[i].rel < cs[j].rel })
		var out []int
		for _, c := range cs[:keep] {
			out = append(out, c.size)
		}
		return out
	}
	for _, d := range pick(maxD, math.Ln10/math.Ln2, 64) {
		v := new(big.Int).Exp(ten, big.NewInt(int64(d)), nil)
		v.Sub(v, big.NewInt(1))
		vv := model.FromInt(v, 0)
		run(C14Case{Op: "out", X: h.SpecOf(vv, uint(len(vv.Digits)), 0)})
	}
	for _, b := range pick(maxB, math.Ln2/math.Ln10, 19) {
		v := new(big.Int).Lsh(big.NewInt(1), uint(b))
		v.Sub(v, big.NewInt(1))
		run(C14Case{Op: "setint", I: v.String(), P: 0, M: 0})
		run(C14Case{Op: "setint", I: v.String(), P: 20, M: 2})
	}
	// integers and fractions whose power of ten is exactly 10^(2^k) (and one off), k = 10 .. 20: Int of 7 x 10^(2^k),
	// Rat of 7 x 10^-(2^k). (Powers built by repeated squaring have their fenceposts there.)
	kmax := 15
	if h.Thorough() {
		kmax = 20
	}
	for k := 10; k <= kmax+1; k++ {
		offs := []int64{-1, 0, 1}
		kk := k
		if k == kmax+1 {
			// the largest one exactly, on every run (two seconds per call)
			kk, offs = 20, []int64{0}
			if kmax == 20 {
				break
			}
		}
		for _, off := range offs {
			e := int64(1)<<uint(kk) + off
			// the power of ten the conversion multiplies or divides by is 10^(exp - 19*words): make THAT 10^(+-e)
			run(C14Case{Op: "out", X: h.Spec{F: "f", D: "7", E: e + 19, P: 1, Neg: k%2 == 1}})
			run(C14Case{Op: "out", X: h.Spec{F: "f", D: "73", E: -e + 19, P: 2, Neg: k%2 == 0}})
		}
	}
	h.AddExtra("C14", "size_grid_cases_enumerated", n)
	if f := c14GiantMantissaAccuracy(); f != nil {
		h.ReportGridFail(t, "C14", f, []byte(`{"op":"grid:giant-mantissa"}`))
	}
}

// c14GiantMantissaAccuracy: Int64 and Uint64 of values whose mantissa has more than 2^31 digits (113 million words,
// untouched zero pages but for the ends) and a non-zero digit far below the point: the value is the integer part,
// the accuracy Below / Above (a digit count held in 32 signed bits turns negative here).
func c14GiantMantissaAccuracy() *h.Fail {
	debug.FreeOSMemory()
	defer debug.FreeOSMemory()
	const L = 113025460
	mant := make([]decimal.Word, L)
	mant[L-1], mant[0] = 1234500000000000000, 3 // 12345.000...03 with exponent 5
	x := new(decimal.Decimal).SetPrec(model.MaxPrec)
	x.SetBitsExp(mant, 5)
	if x.MinPrec() != 19*L || x.IsInt() {
		return h.Failf("giant", "a %d-word mantissa: MinPrec %d, IsInt %v", L, x.MinPrec(), x.IsInt())
	}
	if v, acc := x.Int64(); v != 12345 || acc != decimal.Below {
		return h.Failf("giant", "Int64 of 12345.00..03 (%d words) = (%d, %v), want (12345, Below)", L, v, acc)
	}
	if v, acc := x.Uint64(); v != 12345 || acc != decimal.Below {
		return h.Failf("giant", "Uint64 of 12345.00..03 (%d words) = (%d, %v), want (12345, Below)", L, v, acc)
	}
	x.Neg(x)
	if v, acc := x.Int64(); v != -12345 || acc != decimal.Above {
		return h.Failf("giant", "Int64 of -12345.00..03 (%d words) = (%d, %v), want (-12345, Above)", L, v, acc)
	}
	if v, acc := x.Uint64(); v != 0 || acc != decimal.Above {
		return h.Failf("giant", "Uint64 of -12345.00..03 (%d words) = (%d, %v), want (0, Above)", L, v, acc)
	}
	return nil
}

var propC14 = &h.Prop[C14Case]{ID: "C14", Rule: ruleC14, Gen: genC14, Check: checkC14, Matchers: map[string]func(C14Case) bool{"rat-exponent-span-beyond-int32": ratSpanBeyondInt32,
	// known finding F-39: SetInt keeps the argument's bit length in a uint32 (integers are generated as decimal strings of a
	// few thousand digits: the zone is only entered by the probe)
	"setint-bitlen-beyond-uint32": func(c C14Case) bool { return c.Op == "setint-probe" }}}

func TestC14(t *testing.T)       { propC14.Search(t) }
func TestC14Replay(t *testing.T) { propC14.Replay(t) }
