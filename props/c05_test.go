package props

import (
	"strconv"
	"strings"
	"sync/atomic"
	"syscall"
	"testing"
	"time"

	"github.com/db47h/decimal"
	"pgregory.net/rapid"

	"verif/h"
	"verif/model"
)

// C05: Sqrt is correctly rounded and respects the receiver's precision and mode.

type C05Case struct {
	X     h.Spec  `json:"x"`
	P     uint    `json:"p"` // receiver precision (0: takes x's)
	M     uint8   `json:"m"`
	Alias bool    `json:"alias,omitempty"` // receiver is x itself
	Z     *h.Spec `json:"z,omitempty"`     // previous contents of the receiver (nil: fresh)
}

func sqrtPrecLimit() int {
	if h.Thorough() {
		return 20000
	}
	return 2000
}

func genC05(t *rapid.T) C05Case {
	c := C05Case{M: h.GenMode(t, "zmode")}
	lim := sqrtPrecLimit()
	evenExp := func(e int64) int64 { return e - e%2 }
	shape := rapid.IntRange(0, 13).Draw(t, "shape")
	if h.Rare(t, "huge", 3000) {
		// roots of tens of thousands of digits (a few per run): size-gated paths in the Newton iteration and the
		// multiplications behind it
		p := rapid.SampledFrom([]int{19456, 32768, 40000, 65536}).Draw(t, "hp") + rapid.IntRange(-20, 20).Draw(t, "hpoff")
		rd := h.GenDigitsN(t, "hr", rapid.SampledFrom([]int{1, 7, p / 2, p, p + 1}).Draw(t, "hrn"))
		r := model.MkFinite(false, rd, int64(rapid.IntRange(-50, 50).Draw(t, "hre")))
		x := model.MulX(r, r).Val
		if rapid.Bool().Draw(t, "hperturb") {
			if y := model.AddX(x, model.MkFinite(rapid.Bool().Draw(t, "hdneg"), "1", x.Exp-int64(len(x.Digits))-int64(rapid.IntRange(0, 5).Draw(t, "hdoff")))).Val; y.Form == model.Finite && !y.Neg {
				x = y
			}
		}
		c.X = h.SpecOf(x, uint(len(x.Digits)), h.GenMode(t, "hxm"))
		c.P = uint(p)
		return c
	}
	switch {
	case shape == 0:
		switch rapid.IntRange(0, 2).Draw(t, "sp") {
		case 0:
			c.X = h.GenSpecial(t, "x", "z")
		case 1:
			c.X = h.GenSpecial(t, "x", "i")
			c.X.Neg = false
		default:
			c.X = h.Spec{F: "f", D: h.GenDigitsN(t, "x", rapid.IntRange(1, 3).Draw(t, "n")), E: int64(rapid.IntRange(-4, 4).Draw(t, "e")), P: 3, M: h.GenMode(t, "xm")}
		}
		c.P = uint(rapid.IntRange(1, 5).Draw(t, "p"))
	case shape <= 6:
		// constructed from the root: x = r^2 (+- tiny), r carrying a rounding pattern at p
		p := rapid.IntRange(1, 50).Draw(t, "p")
		if shape == 6 {
			p = rapid.IntRange(1, lim/4).Draw(t, "pbig")
		}
		var rd string
		switch rapid.IntRange(0, 3).Draw(t, "rootkind") {
		case 0:
			// short root: perfect square representable in every mode
			rd = h.GenDigitsN(t, "r", rapid.IntRange(1, p).Draw(t, "rn"))
		case 1:
			rd = h.GenDigitsN(t, "r", p+rapid.IntRange(0, 3).Draw(t, "rn"))
		default:
			rd = h.GenRoundDigits(t, "r", p)
		}
		r := model.MkFinite(false, rd, h.GenExpModerate(t, "re", 1<<29))
		x := model.MulX(r, r).Val
		switch rapid.IntRange(0, 4).Draw(t, "perturb") {
		case 0:
			d := model.MkFinite(rapid.Bool().Draw(t, "dneg"), "1", x.Exp-int64(len(x.Digits))-int64(rapid.IntRange(0, 30).Draw(t, "doff")))
			if y := model.AddX(x, d).Val; y.Form == model.Finite && !y.Neg {
				x = y
			}
		case 1:
			// one stray digit far below an exact square, placed so that the operand has 19j-1 .. 19j+2 digits in all
			// (a digit just past a word boundary of an operand that is much longer than the precision)
			total := 19*rapid.IntRange(1, 12).Draw(t, "pj") + rapid.IntRange(-1, 2).Draw(t, "pjoff")
			if off := total - len(x.Digits) - 1; off >= 0 {
				d := model.MkFinite(rapid.IntRange(0, 3).Draw(t, "dneg2") == 0, string(byte('1'+rapid.IntRange(0, 8).Draw(t, "pd"))), x.Exp-int64(len(x.Digits))-int64(off))
				if y := model.AddX(x, d).Val; y.Form == model.Finite && !y.Neg {
					x = y
				}
			}
		}
		c.X = h.SpecOf(x, h.GenPrecFor(t, "xp", len(x.Digits)), h.GenMode(t, "xm"))
		// the operand's own history (a leftover accuracy from an earlier inexact rounding, zero-padded or over-long
		// mantissas, stale buffers) must not leak into the exactness decision
		c.X.Hist = h.GenHist(t, "xh")
		c.P = uint(p)
	case shape == 13:
		// one-word operands whose mantissa sits at a binary boundary of the word (2^k, 2^64/10, 2^63/10 and
		// neighbours; 3*2^61, 5*2^60): ten times or a hundred times such a word wraps around 64 bits, where a
		// shortcut for small operands computes in machine integers
		w := rapid.SampledFrom([]uint64{1 << 63, 1<<63 - 1, 1<<63 + 1, 1 << 62, 1 << 61, 1 << 60, 1 << 59, 3 << 61, 3 << 60, 5 << 60, 7 << 60, 1<<64 - 1,
			1844674407370955161, 1844674407370955162, 1844674407370955160, 184467440737095516, 922337203685477580, 922337203685477581, 9223372036854775807 / 100,
			4294967296, 4294967295, 4294967297, 18446744065119617025 % 10000000000000000000, 9999999999999999999, 3037000499, 3037000500, 9223372030926249001}).Draw(t, "w")
		if rapid.Bool().Draw(t, "wpow2") {
			w = uint64(1) << rapid.IntRange(1, 63).Draw(t, "wk")
		}
		w -= uint64(rapid.SampledFrom([]int{0, 0, 0, 1, 2}).Draw(t, "wd"))
		w %= 10000000000000000000
		ds := strings.TrimRight(strconv.FormatUint(w, 10), "0")
		if ds == "" {
			ds = "1"
		}
		c.X = h.Spec{F: "f", D: ds, E: int64(rapid.IntRange(-40, 40).Draw(t, "we")), P: uint(len(ds)) + uint(rapid.IntRange(0, 3).Draw(t, "wp")), M: h.GenMode(t, "xm")}
		c.P = uint(rapid.IntRange(1, 60).Draw(t, "p"))
	case shape == 12:
		// roots a hair away from a power of ten: x = 100^j * (1 +- a*10^-k +- b*10^-m) with the first deviation near or far
		// beyond the precision, so that the iteration may land on the other side of the power of ten (0.99..9 for a root
		// just above 1, 1.00..0 for one just below) and the final correction has to step across it (F-35)
		p := rapid.IntRange(1, 130).Draw(t, "p")
		k := rapid.IntRange(max(1, p-3), 4*p+45).Draw(t, "k")
		if rapid.Bool().Draw(t, "newtonk") {
			// the intermediate precisions of the iteration (17, 32, 62, 122, ...: doubled minus two): a deviation that sits
			// exactly at one of them is where an intermediate rounding throws the iterate to the other side
			k = 15<<rapid.IntRange(0, 6).Draw(t, "ki") + 2 + rapid.IntRange(-1, 1).Draw(t, "koff")
			p = rapid.IntRange(max(1, k/2-4), k).Draw(t, "pk")
		}
		x := model.MkFinite(false, "1", 1)
		dev := model.MkFinite(rapid.IntRange(0, 3).Draw(t, "below") == 0, rapid.OneOf(rapid.Just("5"), rapid.SampledFrom([]string{"25", "1", "2", "4", "6", "49", "51", "9", "15"}), rapid.Custom(func(t *rapid.T) string { return h.GenDigitsN(t, "a", rapid.IntRange(1, 3).Draw(t, "an")) })).Draw(t, "adig"), int64(1-k))
		x = model.AddX(x, dev).Val
		if rapid.IntRange(0, 2).Draw(t, "second") > 0 {
			m := k + rapid.SampledFrom([]int{0, 1, k - 1, k, k + 1}).Draw(t, "mk") + rapid.IntRange(0, 3).Draw(t, "moff")
			d2 := model.MkFinite(rapid.Bool().Draw(t, "neg2"), h.GenDigitsN(t, "b", rapid.IntRange(1, 2).Draw(t, "bn")), int64(1-m))
			if y := model.AddX(x, d2).Val; y.Form == model.Finite && !y.Neg {
				x = y
			}
		}
		x.Exp += 2*int64(rapid.IntRange(-3, 3).Draw(t, "j")) + int64(rapid.SampledFrom([]int{0, 0, 0, 1}).Draw(t, "odd"))
		c.X = h.SpecOf(x, h.GenPrecFor(t, "xp", len(x.Digits)), h.GenMode(t, "xm"))
		c.X.Hist = h.GenHist(t, "xh")
		c.P = uint(p)
	default:
		c.X = h.GenFinite(t, "x", lim)
		c.X.Neg = false
		c.X.Hist = ""
		c.P = h.GenResultPrec(t, "p", len(c.X.D), lim)
		_ = evenExp
	}
	if rapid.IntRange(0, 9).Draw(t, "prec0") == 0 && c.X.F == "f" && int(c.X.P) <= lim {
		c.P = 0
	}
	if rapid.IntRange(0, 5).Draw(t, "alias") == 0 && (c.X.F != "f" || c.P >= uint(len(c.X.D))) {
		c.Alias = true
	} else if rapid.IntRange(0, 2).Draw(t, "zprev") == 0 {
		// the receiver held something else before (negative values, specials, longer mantissas)
		prev := h.GenAny(t, "zprev", 120)
		if prev.F == "f" && c.P != 0 && uint(len(prev.D)) > c.P {
			prev.D = prev.D[:c.P]
			if prev.D[len(prev.D)-1] == '0' {
				prev.D = prev.D[:len(prev.D)-1] + "3"
			}
		}
		if prev.F == "f" && c.P == 0 {
			prev = h.Spec{F: "z", Neg: prev.Neg}
		}
		prev.Neg = rapid.IntRange(0, 2).Draw(t, "zprevneg") > 0
		prev.P, prev.M = c.P, c.M
		c.Z = &prev
	}
	return c
}

var c05Patience = func() *atomic.Int64 { v := new(atomic.Int64); v.Store(90); return v }()

// processCPU returns the CPU time (user + system) this process has used so far.
func processCPU() time.Duration {
	var ru syscall.Rusage
	if syscall.Getrusage(syscall.RUSAGE_SELF, &ru) != nil {
		return 0
	}
	return time.Duration(ru.Utime.Nano() + ru.Stime.Nano())
}

func checkC05(c C05Case, o *h.Obs) *h.Fail {
	x := c.X.Build()
	xv := c.X.Val()
	z := mkRecv(c.P, c.M)
	if c.Z != nil && !c.Alias {
		z = c.Z.Build()
		o.Label("receiver-with-history")
	}
	if c.Alias {
		x.SetMode(decimal.RoundingMode(c.M))
		if c.P != 0 || c.X.F != "f" {
			x.SetPrec(c.P)
		}
		z = x
		o.Label("alias")
	}
	wantPrec := c.P
	if wantPrec == 0 {
		wantPrec = x.Prec()
		o.Label("prec0")
	}
	if c.Alias && c.P == 0 && c.X.F == "f" {
		wantPrec = c.X.P
	}
	if xv.Neg && xv.Form != model.Zero {
		return h.Failf("bad-case", "negative operand")
	}
	before := h.Read(x)
	if c.P <= 3000 && len(c.X.D) <= 6000 {
		// Sqrt iterates and then corrects in loops: an operation of a millisecond that has not come back after
		// 90 s does not terminate. (The only place where elapsed time decides; the margin is five orders of magnitude.)
		done := make(chan interface{}, 1)
		go func() {
			defer func() { done <- recover() }()
			z.Sqrt(x)
		}()
		// The budget is counted in wall-clock seconds AND in CPU seconds of this process: a machine that stalls (memory
		// pressure froze every shard of a thorough run for minutes once, and seven of them reported "no-return" for
		// Sqrt(0.16e634)) burns no CPU time, a loop that does not end burns one CPU second per second.
		patience := time.Duration(c05Patience.Load()) * time.Second
		start, cpu0 := time.Now(), processCPU()
		tick := time.NewTicker(200 * time.Millisecond)
		defer tick.Stop()
	wait:
		for {
			select {
			case r := <-done:
				if r != nil {
					panic(r)
				}
				break wait
			case <-tick.C:
				if time.Since(start) >= patience && processCPU()-cpu0 >= patience/2 {
					// (the abandoned goroutine keeps a core busy: after the first one, the cases that follow - the
					// shrinking attempts - wait 8 s only)
					c05Patience.Store(8)
					return h.Failf("no-return", "Sqrt(%v) at precision %d %v has not returned after %v (%v of CPU time used by the process meanwhile)", xv, wantPrec, model.Mode(c.M), time.Since(start).Round(time.Second), (processCPU() - cpu0).Round(time.Second))
				}
			}
		}
	} else {
		z.Sqrt(x)
	}
	got := h.Read(z)
	if !c.Alias {
		if after := h.Read(x); !after.SameAll(before) {
			return h.Failf("operand-modified", "x before %v after %v", before, after)
		}
	}
	if got.Malformed != "" {
		return h.Failf("malformed", "%v", got)
	}
	if got.Prec != wantPrec {
		return h.Failf("prec", "receiver precision %d after Sqrt, want %d (before: %d, x: %d)", got.Prec, wantPrec, c.P, c.X.P)
	}
	if got.Mode != c.M {
		return h.Failf("mode", "receiver mode %v after Sqrt, was %v (x's mode %v)", model.Mode(got.Mode), model.Mode(c.M), model.Mode(c.X.M))
	}
	if xv.Form != model.Finite {
		o.Label("special")
		if !got.Val().Equal(xv) {
			return h.Failf("special", "Sqrt(%v) = %v", xv, got.Val())
		}
		return nil
	}
	if wantPrec == 0 {
		return h.Failf("bad-case", "finite operand with precision 0")
	}
	refPrec := uint64(wantPrec)
	if refPrec > 1<<24 {
		// enormous receiver precisions are only used with short exact squares: the root is exact at any precision
		// that holds it, and that is all the reference computes
		refPrec = uint64(len(xv.Digits)) + 8
		if e := model.SqrtX(xv, refPrec); e.Sticky {
			return h.Failf("bad-case", "precision %d with an operand that is not a short exact square", wantPrec)
		}
		o.Label("enormous-precision")
	}
	ex := model.SqrtX(xv, refPrec)
	want, _ := model.Round(ex, refPrec, model.Mode(c.M))
	cls := model.Classify(ex, uint64(wantPrec))
	o.Label("root:" + cls)
	o.Labelf("mode:%v", model.Mode(c.M))
	if ex.Sticky && ex.Digits == "1" {
		o.Label("root:hair-above-power-of-ten")
	} else if uint64(len(ex.Digits)) == refPrec && strings.Trim(ex.Digits, "9") == "" {
		o.Label("root:hair-below-power-of-ten")
	}
	if !ex.Sticky {
		o.Label("perfect-square")
		if c.M >= 2 {
			o.NonTrivial()
		}
	}
	if cls != "exact" {
		o.NonTrivial()
	}
	if c.X.M != c.M {
		o.Label("x.mode!=z.mode")
		o.NonTrivial()
	}
	if !got.Val().Equal(want) {
		return h.Failf("value", "Sqrt(%v) at precision %d %v: got %v, exact root %v rounds to %v", xv, wantPrec, model.Mode(c.M), got.Val(), ex, want)
	}
	return nil
}

const ruleC05 = "rapid-generated (x, receiver precision, receiver mode, x's own mode, aliasing): x constructed from its root (x = r^2 with r short, r of p..p+3 digits, or r carrying a tie / all-nines / just-above / just-below pattern at the precision; optionally perturbed by one unit far below), generic word-patterned x up to the precision bound, odd and even exponents over +-2^29, +-0 and +Inf, receiver precision 0, receiver == x, receivers that previously held negative / special / other finite values; exact squares carrying one stray digit far below, placed so that the operand's length is 19j-1..19j+2 digits; operands 100^j*(1 +- a*10^-k +- b*10^-m) whose root is a hair away from a power of ten, k from p-3 to 4p+45; one-word operands at binary boundaries of the word (2^k, 2^64/10, ...). Oracle: big.Int.Sqrt of an even-exponent scaling + remainder sticky + reference Round; Prec() and Mode() after == before (precision 0 -> x's). Non-trivial = root inexact at the precision, or perfect square under a directed mode, or x.mode != z.mode. Bound: precision <= 2000 (quick) / 20000 (thorough), plus about one case in 3000 at 19456..65536 digits."

var propC05 = &h.Prop[C05Case]{ID: "C05", Rule: ruleC05, Gen: genC05, Check: checkC05, Matchers: map[string]func(C05Case) bool{
	// known finding F-34: receiver precisions within 2 of MaxPrec (the branch without guard digits): the Newton
	// loop's bound z.prec+2 wraps around 32 bits, the loop does not run, and the 17-digit first guess is returned
	"sqrt-precision-within-2-of-MaxPrec": func(c C05Case) bool {
		p := c.P
		if p == 0 {
			p = c.X.P
		}
		return p > model.MaxPrec-4 && c.X.F == "f" // (MaxPrec-3 takes the branch with guard digits: its working precision MaxPrec-1 wraps the same loop bound)
	}}}

func TestC05(t *testing.T)       { propC05.Search(t) }
func TestC05Replay(t *testing.T) { propC05.Replay(t) }
