package props

import (
	"encoding/json"
	"math/big"
	"strings"
	"testing"

	"github.com/db47h/decimal"
	"pgregory.net/rapid"

	"verif/h"
	"verif/model"
)

// C01: Add, Sub, Mul, Quo and Set/SetPrec (Neg/Abs) return the exact result rounded once.

type C01Case struct {
	Op string `json:"op"` // add sub mul quo set setprec neg abs
	X  h.Spec `json:"x"`
	Y  h.Spec `json:"y,omitempty"`
	P  uint   `json:"p"` // receiver precision (0 only for setprec)
	M  uint8  `json:"m"` // receiver mode
	// Alias: the receiver is the operand itself ("x" or "y"); that operand then carries the
	// receiver's precision and mode and a leftover accuracy from an earlier inexact rounding.
	Alias string `json:"alias,omitempty"`
}

func gapLimit() int64 {
	if h.Thorough() {
		return 6000
	}
	return 600
}

func quoPrecLimit() int {
	if h.Thorough() {
		return 40000
	}
	return 2000
}

func maxOperandDigits() int {
	if h.Thorough() {
		return 20000
	}
	return 2500
}

func clampExp(e int64) int64 {
	if e > model.MaxExp {
		return model.MaxExp
	}
	if e < model.MinExp {
		return model.MinExp
	}
	return e
}

// lowExp is the exponent of the least significant digit position of a spec.
func lowExp(s h.Spec) int64 { return s.E - int64(len(s.D)) }

// genRelExp places y's exponent relative to x for sums: overlapping, adjacent,
// or far (sticky only), never beyond the gap bound.
func genRelExp(t *rapid.T, x h.Spec, ylen int, p uint) int64 {
	span := int64(len(x.D)+ylen) + int64(p%100000) + 3
	if span > gapLimit() {
		span = gapLimit()
	}
	var off int64
	switch rapid.IntRange(0, 5).Draw(t, "rel.cls") {
	case 0:
		off = 0
	case 1, 2, 3:
		off = int64(rapid.IntRange(int(-span), int(span)).Draw(t, "rel.off"))
	default:
		off = int64(rapid.IntRange(int(-gapLimit()), int(gapLimit())).Draw(t, "rel.far"))
	}
	e := clampExp(x.E + off)
	// keep the low-digit gap within the bound too
	for i := 0; i < 2; i++ {
		g := (e - int64(ylen)) - lowExp(x)
		if g > gapLimit() {
			e -= g - gapLimit()
		} else if g < -gapLimit() {
			e += -gapLimit() - g
		}
	}
	return clampExp(e)
}

func genC01base(t *rapid.T) C01Case { return genC01op(t, "") }

// genC01op draws a case for the given operation ("" = any).
func genC01op(t *rapid.T, op string) C01Case {
	c := C01Case{Op: op}
	if op == "" {
		c.Op = rapid.SampledFrom([]string{"add", "add", "sub", "sub", "mul", "mul", "quo", "quo", "quo", "set", "setprec", "neg", "abs"}).Draw(t, "op")
	}
	c.M = h.GenMode(t, "zmode")
	maxD := maxOperandDigits()
	shape := rapid.IntRange(0, 9).Draw(t, "shape")
	fresh := func(s h.Spec) h.Spec { s.Hist = ""; return s }
	switch c.Op {
	case "set", "setprec", "neg", "abs":
		switch {
		case shape < 5:
			p := rapid.IntRange(1, 60).Draw(t, "p")
			if shape == 0 {
				p = rapid.IntRange(1, 4).Draw(t, "psmall")
			}
			d := h.GenRoundDigits(t, "x", p)
			c.P = uint(p)
			c.X = h.Spec{F: "f", D: d, E: h.GenExp(t, "xe"), Neg: rapid.Bool().Draw(t, "xneg")}
			c.X.P = h.GenPrecFor(t, "xp", len(d))
			c.X.M = h.GenMode(t, "xm")
		default:
			c.X = fresh(h.GenFinite(t, "x", maxD))
			c.P = h.GenResultPrec(t, "p", len(c.X.D), 0)
			if shape == 9 {
				c.P = h.GenPrecFor(t, "pbig", 1)
			}
		}
		if c.Op == "setprec" {
			c.X.M = c.M
			if rapid.IntRange(0, 19).Draw(t, "p0") == 0 {
				c.P = 0
			}
		}
		return c
	case "add", "sub":
		if rapid.IntRange(0, 11).Draw(t, "decade") == 0 {
			// an exact power of ten minus something of about half a unit of the result's last place: the difference
			// drops into the decade below, the rounding position moves down by one, and the decision (tie, just below,
			// just above) hangs on digits of the small operand one to several words further down
			p := rapid.IntRange(1, 80).Draw(t, "dc.p")
			k := int64(rapid.IntRange(-40, 40).Draw(t, "dc.k"))
			z := strings.Repeat("0", rapid.IntRange(0, 60).Draw(t, "dc.z"))
			n := strings.Repeat("9", rapid.IntRange(1, 60).Draw(t, "dc.n"))
			sd := rapid.SampledFrom([]string{"5", "5" + z + "1", "4" + n, "4" + n + "8", "5" + z + "0003", "50" + z + "7", "49" + n, "1", "9" + n}).Draw(t, "dc.s")
			// the result 10^k - s has exponent k and p digits above its rounding position: s starts at digit p+1
			small := h.Spec{F: "f", D: strings.TrimRight(sd, "0"), E: k - int64(p), Neg: true, M: h.GenMode(t, "dc.sm")}
			if rapid.IntRange(0, 3).Draw(t, "dc.off") == 0 {
				small.E += int64(rapid.IntRange(-2, 1).Draw(t, "dc.offv"))
			}
			small.P = h.GenPrecFor(t, "dc.sp", len(small.D))
			big := h.Spec{F: "f", D: "1", E: k + 1, M: h.GenMode(t, "dc.bm")}
			big.P = h.GenPrecFor(t, "dc.bp", 1)
			if rapid.Bool().Draw(t, "dc.neg") {
				big.Neg, small.Neg = true, false
			}
			if c.Op == "sub" {
				small.Neg = !small.Neg
			}
			c.X, c.Y, c.P = big, small, uint(p)
			if rapid.Bool().Draw(t, "dc.swap") && c.Op == "add" {
				c.X, c.Y = c.Y, c.X
			}
			return c
		}
		if h.Rare(t, "far", 60) {
			// one addend tens of thousands of digits below the other (far beyond any "negligible" threshold a fast
			// path might use): the result is the large one, nudged by the sign of the small one
			p := rapid.SampledFrom([]int{1, 2, 17, 18, 19, 20, 36, 37, 38, 55, 56, 57}).Draw(t, "far.p")
			if rapid.Bool().Draw(t, "far.prand") {
				p = rapid.IntRange(1, 80).Draw(t, "far.p2")
			}
			big := h.Spec{F: "f", D: rapid.SampledFrom([]string{"1", "1", "1", "5", "999", "1000000000000000000000000000000000001"}).Draw(t, "far.d"), E: int64(rapid.IntRange(-50, 50).Draw(t, "far.e")), Neg: rapid.Bool().Draw(t, "far.neg"), M: h.GenMode(t, "far.m")}
			if rapid.IntRange(0, 2).Draw(t, "far.drand") == 0 {
				big.D = h.GenRoundDigits(t, "far.dg", p)
			}
			big.P = uint(len(big.D))
			gap := rapid.SampledFrom([]int{4096, 32767, 32768, 65535, 65536, 65537, 70000, 131072, 140000}).Draw(t, "far.gap") + rapid.IntRange(-3, 3).Draw(t, "far.goff")
			if h.Rare(t, "far.very", 25) {
				// tens of millions of digits apart (tens of megabytes per operation in the library): a few dozen per
				// run, concentrated on the sharpest case (a power of ten minus epsilon at precisions just short of a word)
				gap = rapid.SampledFrom([]int{1 << 20, 1 << 24, 1<<26 - 1, 1 << 26, 1<<26 + 1, 1 << 27}).Draw(t, "far.vgap")
				if rapid.IntRange(0, 2).Draw(t, "far.vsharp") > 0 {
					big.D, big.P = "1", 1
					p = rapid.SampledFrom([]int{18, 37, 56, 19, 38, 1}).Draw(t, "far.vp")
				}
			}
			small := h.Spec{F: "f", D: h.GenDigits(t, "far.s", 8), E: big.E - int64(gap), Neg: rapid.Bool().Draw(t, "far.sneg"), M: h.GenMode(t, "far.sm")}
			small.P = uint(len(small.D))
			c.P = uint(p)
			if rapid.Bool().Draw(t, "far.order") {
				c.X, c.Y = big, small
			} else {
				c.X, c.Y = small, big
			}
			return c
		}
		if rapid.IntRange(0, 24).Draw(t, "zero-operand") == 0 {
			// one addend is a zero: the result is the other addend, rounded as a sum
			p := rapid.IntRange(1, 40).Draw(t, "p")
			v := h.Spec{F: "f", D: h.GenRoundDigits(t, "v", p), E: h.GenExp(t, "ve"), Neg: rapid.Bool().Draw(t, "vneg"), M: h.GenMode(t, "vm")}
			v.P = h.GenPrecFor(t, "vp", len(v.D))
			z := h.GenSpecial(t, "zero", "z")
			c.P = uint(p)
			if rapid.Bool().Draw(t, "zero-first") {
				c.X, c.Y = z, v
			} else {
				c.X, c.Y = v, z
			}
			return c
		}
		switch {
		case shape < 4:
			// result-directed: choose the exact sum, then split it
			p := rapid.IntRange(1, 45).Draw(t, "p")
			if shape == 0 {
				p = rapid.IntRange(1, 4).Draw(t, "psmall")
			}
			sum := model.MkFinite(rapid.Bool().Draw(t, "sneg"), h.GenRoundDigits(t, "s", p), h.GenExp(t, "se"))
			// x: a value of comparable magnitude
			xd := h.GenDigits(t, "x", 60)
			xe := clampExp(sum.Exp + int64(rapid.IntRange(-3, 3).Draw(t, "xoff")))
			x := model.MkFinite(rapid.Bool().Draw(t, "xneg"), xd, xe)
			// y = sum - x (add) or x - sum (sub)
			var y model.Val
			if c.Op == "add" {
				y = model.AddX(sum, x.Negate()).Val
			} else {
				y = model.AddX(x, sum.Negate()).Val
			}
			if y.Form != model.Finite || y.Exp > model.MaxExp || y.Exp < model.MinExp {
				y = model.MkFinite(false, "1", xe)
			}
			c.P = uint(p)
			c.X = h.SpecOf(x, h.GenPrecFor(t, "xp", len(x.Digits)), h.GenMode(t, "xm"))
			c.Y = h.SpecOf(y, h.GenPrecFor(t, "yp", len(y.Digits)), h.GenMode(t, "ym"))
		case shape == 4:
			// near-total cancellation: y = ∓(x ± tiny)
			c.X = fresh(h.GenFinite(t, "x", 200))
			xv := c.X.Val()
			tiny := model.MkFinite(rapid.Bool().Draw(t, "tneg"), h.GenDigits(t, "tiny", 5), clampExp(lowExp(c.X)+int64(rapid.IntRange(-30, 3).Draw(t, "toff"))))
			y := model.AddX(xv, tiny).Val
			if c.Op == "add" {
				y = y.Negate()
			}
			if rapid.IntRange(0, 5).Draw(t, "total") == 0 {
				y = xv
				if c.Op == "add" {
					y = y.Negate()
				}
			}
			if y.Form != model.Finite || y.Exp > model.MaxExp || y.Exp < model.MinExp {
				y = xv
			}
			c.Y = h.SpecOf(y, h.GenPrecFor(t, "yp", len(y.Digits)), h.GenMode(t, "ym"))
			c.P = h.GenResultPrec(t, "p", 20, 0)
		case shape == 5:
			// carry across MaxExp / results at the range ends
			neg := rapid.Bool().Draw(t, "neg")
			e := int64(model.MaxExp)
			if rapid.IntRange(0, 3).Draw(t, "low") == 0 {
				e = model.MinExp + int64(rapid.IntRange(0, 2).Draw(t, "lowoff"))
			}
			p := rapid.IntRange(1, 30).Draw(t, "p")
			x := model.MkFinite(neg, h.GenRoundDigits(t, "x", p), e)
			y := model.MkFinite(neg != (c.Op == "sub"), h.GenRoundDigits(t, "y", p), clampExp(e-int64(rapid.IntRange(0, p+2).Draw(t, "yoff"))))
			if rapid.Bool().Draw(t, "opp") {
				y = y.Negate()
			}
			c.P = uint(p)
			c.X = h.SpecOf(x, uint(len(x.Digits)), h.GenMode(t, "xm"))
			c.Y = h.SpecOf(y, uint(len(y.Digits)), h.GenMode(t, "ym"))
		default:
			c.X = fresh(h.GenFinite(t, "x", maxD))
			yd := h.GenDigits(t, "y", maxD)
			c.P = h.GenResultPrec(t, "p", len(c.X.D)+len(yd)/2, 0)
			if shape == 9 {
				c.P = h.GenPrecFor(t, "pbig", 1)
			}
			c.Y = h.Spec{F: "f", D: yd, Neg: rapid.Bool().Draw(t, "yneg"), M: h.GenMode(t, "ym")}
			c.Y.E = genRelExp(t, c.X, len(yd), c.P)
			c.Y.P = h.GenPrecFor(t, "yp", len(yd))
		}
		return c
	case "mul":
		if rapid.IntRange(0, 9).Draw(t, "round") == 0 {
			// products that are round numbers, or miss one by a hair, although both factors are long: x = 2^a m and
			// y = 5^a n; or y arbitrary and x = ceil / floor (10^k / y), so that x*y = 10^k + r with 0 <= |r| < y. At a
			// small precision everything hangs on whether the tail far below is exactly zero, and on its sign
			var xv, yv model.Val
			if rapid.Bool().Draw(t, "rd.pow") {
				a := int64(rapid.IntRange(1, 700).Draw(t, "rd.a"))
				xi := new(big.Int).Exp(big.NewInt(2), big.NewInt(a), nil)
				yi := new(big.Int).Exp(big.NewInt(5), big.NewInt(a), nil)
				xi.Mul(xi, big.NewInt(int64(rapid.IntRange(1, 999).Draw(t, "rd.m"))))
				yi.Mul(yi, big.NewInt(int64(rapid.IntRange(1, 999).Draw(t, "rd.n"))))
				xv, yv = model.FromInt(xi, 0), model.FromInt(yi, 0)
			} else {
				yi, _ := new(big.Int).SetString(h.GenDigits(t, "rd.y", 200), 10)
				k := int64(len(yi.String()) + rapid.IntRange(1, 400).Draw(t, "rd.k"))
				if rapid.IntRange(0, 3).Draw(t, "rd.long") == 0 {
					// both factors of 30..45 words: the sizes at which a multiplication changes algorithm
					yi, _ = new(big.Int).SetString(h.GenDigitsN(t, "rd.ylong", rapid.IntRange(560, 860).Draw(t, "rd.yn")), 10)
					k = int64(len(yi.String()) + rapid.IntRange(560, 860).Draw(t, "rd.klong"))
				}
				q, r := new(big.Int).QuoRem(new(big.Int).Exp(big.NewInt(10), big.NewInt(k), nil), yi, new(big.Int))
				if r.Sign() != 0 && rapid.Bool().Draw(t, "rd.ceil") {
					q.Add(q, big.NewInt(1))
				}
				xv, yv = model.FromInt(q, 0), model.FromInt(yi, 0)
			}
			xv.Exp += int64(rapid.IntRange(-30, 30).Draw(t, "rd.xe"))
			yv.Exp += int64(rapid.IntRange(-30, 30).Draw(t, "rd.ye"))
			if rapid.IntRange(0, 2).Draw(t, "rd.edge") == 0 {
				// ... with the product's exponent at an end of the range: a mantissa product a hair above 0.1 (or below 1)
				// decides between a representable value and an under- or overflow
				target := int64(model.MaxExp)
				if rapid.IntRange(0, 2).Draw(t, "rd.low") > 0 {
					target = model.MinExp
				}
				xv.Exp = int64(rapid.IntRange(-1000, 1000).Draw(t, "rd.xe2"))
				yv.Exp = target - xv.Exp + int64(rapid.IntRange(-1, 2).Draw(t, "rd.d"))
				if yv.Exp > model.MaxExp {
					yv.Exp = model.MaxExp
				}
				if yv.Exp < model.MinExp {
					yv.Exp = model.MinExp
				}
			}
			xv.Neg, yv.Neg = rapid.Bool().Draw(t, "rd.xneg"), rapid.Bool().Draw(t, "rd.yneg")
			c.X = h.SpecOf(xv, h.GenPrecFor(t, "rd.xp", len(xv.Digits)), h.GenMode(t, "xm"))
			c.Y = h.SpecOf(yv, h.GenPrecFor(t, "rd.yp", len(yv.Digits)), h.GenMode(t, "ym"))
			c.P = uint(rapid.IntRange(1, 60).Draw(t, "rd.p"))
			if rapid.IntRange(0, 3).Draw(t, "rd.pfull") == 0 {
				c.P = uint(rapid.IntRange(1, len(xv.Digits)+len(yv.Digits)+2).Draw(t, "rd.p2"))
			}
			return c
		}
		switch {
		case shape == 0:
			// small scope
			c.X = h.Spec{F: "f", D: h.GenDigitsN(t, "x", rapid.IntRange(1, 4).Draw(t, "xn")), E: int64(rapid.IntRange(-5, 5).Draw(t, "xe")), Neg: rapid.Bool().Draw(t, "xneg")}
			c.Y = h.Spec{F: "f", D: h.GenDigitsN(t, "y", rapid.IntRange(1, 4).Draw(t, "yn")), E: int64(rapid.IntRange(-5, 5).Draw(t, "ye")), Neg: rapid.Bool().Draw(t, "yneg")}
			c.X.P, c.Y.P = 4, 4
			c.P = uint(rapid.IntRange(1, 4).Draw(t, "p"))
		case shape == 1 || shape == 2:
			// product exponent at the range ends
			c.X = fresh(h.GenFinite(t, "x", 80))
			yd := h.GenDigits(t, "y", 80)
			target := int64(model.MaxExp)
			if rapid.Bool().Draw(t, "low") {
				target = model.MinExp
			}
			ye := target - c.X.E + int64(rapid.IntRange(-3, 3).Draw(t, "edge"))
			if ye > model.MaxExp || ye < model.MinExp {
				// x's exponent cannot be complemented inside the range: move x to the middle
				c.X.E = int64(rapid.IntRange(-1000, 1000).Draw(t, "xe2"))
				ye = clampExp(target - c.X.E + int64(rapid.IntRange(-3, 3).Draw(t, "edge2")))
			}
			c.Y = h.Spec{F: "f", D: yd, E: ye, Neg: rapid.Bool().Draw(t, "yneg"), P: h.GenPrecFor(t, "yp", len(yd)), M: h.GenMode(t, "ym")}
			c.P = h.GenResultPrec(t, "p", len(c.X.D)+len(yd), 0)
		default:
			c.X = fresh(h.GenFinite(t, "x", maxD))
			c.Y = fresh(h.GenFinite(t, "y", maxD))
			// keep the product's exponent mostly inside the range
			if s := c.X.E + c.Y.E; (s > model.MaxExp || s < model.MinExp) && rapid.IntRange(0, 3).Draw(t, "keep") > 0 {
				c.Y.E = -c.X.E / 2
			}
			c.P = h.GenResultPrec(t, "p", len(c.X.D)+len(c.Y.D), 0)
			if shape == 9 {
				c.P = h.GenPrecFor(t, "pbig", 1)
			}
		}
		return c
	case "quo":
		lim := quoPrecLimit()
		if h.Rare(t, "longdividend", 300) {
			// a dividend of more than a thousand words divided by a short divisor at a small precision: the dividend
			// is far longer than the quotient needs and is used in place
			c.X = fresh(h.Spec{F: "f", D: h.GenDigitsN(t, "ld.x", rapid.IntRange(19500, 24000).Draw(t, "ld.n")), E: int64(rapid.IntRange(-50, 50).Draw(t, "ld.e")), Neg: rapid.Bool().Draw(t, "ld.neg"), M: h.GenMode(t, "ld.m")})
			c.X.P = uint(len(c.X.D))
			c.Y = fresh(h.GenFinite(t, "ld.y", 60))
			c.Y.E = int64(rapid.IntRange(-50, 50).Draw(t, "ld.ye"))
			c.P = uint(rapid.IntRange(1, 80).Draw(t, "ld.p"))
			if rapid.Bool().Draw(t, "ld.exact") {
				// the leading part an exact multiple of the divisor, then zeros with one stray digit somewhere in a tail
				// of twenty thousand digits, the mantissa itself zero-padded below (precision beyond the digits): the
				// quotient is exact but for a digit that is neither at the top nor at the bottom of what is not needed
				yv := c.Y.Val()
				q := model.MkFinite(false, h.GenRoundDigits(t, "ld.q", int(c.P)), 0)
				head := model.MulX(q, model.MkFinite(false, yv.Digits, 0)).Val.Digits
				tail := rapid.IntRange(19500, 24000).Draw(t, "ld.tail")
				pos := rapid.IntRange(0, tail-1).Draw(t, "ld.pos")
				switch rapid.IntRange(0, 3).Draw(t, "ld.poscls") {
				case 0:
					pos = rapid.IntRange(0, 60).Draw(t, "ld.postop")
				case 1:
					pos = tail - 1 - rapid.IntRange(0, 1500).Draw(t, "ld.posbot")
				}
				d := head + strings.Repeat("0", pos) + string(byte('1'+rapid.IntRange(0, 8).Draw(t, "ld.dig")))
				c.X = h.Spec{F: "f", D: d, E: c.X.E, Neg: c.X.Neg, M: c.X.M, P: uint(len(head) + tail), Hist: rapid.SampledFrom([]string{"padfull", "padfull", ""}).Draw(t, "ld.hist")}
			}
			return c
		}
		if rapid.IntRange(0, 11).Draw(t, "terminating") == 0 {
			// short operands, long terminating quotient: x / (2^a 5^b) has about 0.7a (0.3b) more digits than x; the
			// receiver holds all of them (Exact), exactly all of them, or a few less
			a, b := 0, 0
			if rapid.Bool().Draw(t, "tm.two") {
				a = rapid.IntRange(1, lim+lim/3).Draw(t, "tm.a")
			} else {
				b = rapid.IntRange(1, 3*lim).Draw(t, "tm.b")
			}
			if rapid.IntRange(0, 3).Draw(t, "tm.both") == 0 {
				a, b = rapid.IntRange(0, 200).Draw(t, "tm.a2"), rapid.IntRange(0, 200).Draw(t, "tm.b2")
			}
			yi := new(big.Int).Exp(big.NewInt(2), big.NewInt(int64(a)), nil)
			yi.Mul(yi, new(big.Int).Exp(big.NewInt(5), big.NewInt(int64(b)), nil))
			y := model.FromInt(yi, int64(rapid.IntRange(-30, 30).Draw(t, "tm.ye")))
			y.Neg = rapid.Bool().Draw(t, "tm.yneg")
			x := model.MkFinite(rapid.Bool().Draw(t, "tm.xneg"), h.GenDigits(t, "tm.x", 40), int64(rapid.IntRange(-30, 30).Draw(t, "tm.xe")))
			full := len(model.QuoX(x, y, uint64(4*lim+200)).Digits) // the whole expansion (it terminates well before that)
			p := full + rapid.SampledFrom([]int{0, 0, 1, 5, 40, -1, -2, -7}).Draw(t, "tm.p")
			if p < 1 {
				p = 1
			}
			if p > lim {
				p = lim
			}
			c.P = uint(p)
			c.X = h.SpecOf(x, h.GenPrecFor(t, "tm.xp", len(x.Digits)), h.GenMode(t, "xm"))
			c.Y = h.SpecOf(y, h.GenPrecFor(t, "tm.yp", len(y.Digits)), h.GenMode(t, "ym"))
			return c
		}
		switch {
		case shape == 0:
			c.X = h.Spec{F: "f", D: h.GenDigitsN(t, "x", rapid.IntRange(1, 4).Draw(t, "xn")), E: int64(rapid.IntRange(-5, 5).Draw(t, "xe")), Neg: rapid.Bool().Draw(t, "xneg")}
			c.Y = h.Spec{F: "f", D: h.GenDigitsN(t, "y", rapid.IntRange(1, 4).Draw(t, "yn")), E: int64(rapid.IntRange(-5, 5).Draw(t, "ye")), Neg: rapid.Bool().Draw(t, "yneg")}
			c.X.P, c.Y.P = 4, 4
			c.P = uint(rapid.IntRange(1, 6).Draw(t, "p"))
		case shape < 5:
			// exact quotient q with a rounding pattern at p: x = q*y (+ r)
			p := rapid.IntRange(1, 60).Draw(t, "p")
			if shape == 4 {
				p = rapid.IntRange(1, 600).Draw(t, "pbig")
			}
			q := model.MkFinite(rapid.Bool().Draw(t, "qneg"), h.GenRoundDigits(t, "q", p), int64(rapid.IntRange(-30, 30).Draw(t, "qe")))
			ymax := 120
			if shape == 4 {
				ymax = 1200
				if h.Thorough() {
					ymax = 6000
				}
			}
			y := model.MkFinite(rapid.Bool().Draw(t, "yneg"), h.GenDigits(t, "y", ymax), h.GenExpModerate(t, "ye", 100000))
			x := model.MulX(q, y).Val
			if rapid.IntRange(0, 2).Draw(t, "rem") == 0 {
				// perturb far below: an inexact quotient just above/below the pattern
				r := model.MkFinite(rapid.Bool().Draw(t, "rneg"), "1", x.Exp-int64(len(x.Digits))-int64(rapid.IntRange(0, 40).Draw(t, "roff")))
				x = model.AddX(x, r).Val
			}
			c.P = uint(p)
			c.X = h.SpecOf(x, uint(len(x.Digits)), h.GenMode(t, "xm"))
			c.Y = h.SpecOf(y, uint(len(y.Digits)), h.GenMode(t, "ym"))
		case shape == 5:
			// quotient exponent at the range ends
			c.X = fresh(h.GenFinite(t, "x", 60))
			yd := h.GenDigits(t, "y", 60)
			target := int64(model.MaxExp)
			if rapid.Bool().Draw(t, "low") {
				target = model.MinExp
			}
			ye := c.X.E - target + int64(rapid.IntRange(-3, 3).Draw(t, "edge"))
			if ye > model.MaxExp || ye < model.MinExp {
				c.X.E = int64(rapid.IntRange(-1000, 1000).Draw(t, "xe2"))
				ye = clampExp(c.X.E - target + int64(rapid.IntRange(-3, 3).Draw(t, "edge2")))
			}
			c.Y = h.Spec{F: "f", D: yd, E: ye, Neg: rapid.Bool().Draw(t, "yneg"), P: h.GenPrecFor(t, "yp", len(yd)), M: h.GenMode(t, "ym")}
			c.P = h.GenResultPrec(t, "p", 30, lim)
		default:
			c.X = fresh(h.GenFinite(t, "x", maxD))
			c.Y = fresh(h.GenFinite(t, "y", maxD))
			c.P = h.GenResultPrec(t, "p", len(c.X.D), lim)
		}
		return c
	}
	panic("unreachable")
}

// genC01 adds receiver/operand aliasing to a base case now and then.
// genC01Huge: operands and precisions an order of magnitude beyond the ordinary classes (tens of thousands of
// digits to a hundred thousand): any size-gated code path has its threshold somewhere; a few cases per run.
func genC01Huge(t *rapid.T) C01Case {
	c := C01Case{M: h.GenMode(t, "zmode")}
	c.Op = rapid.SampledFrom([]string{"add", "sub", "mul", "quo", "quo", "set"}).Draw(t, "hop")
	size := func(l string) int {
		return rapid.SampledFrom([]int{32768 * 19 / 19, 40000, 65536, 77824, 100000, 131072}).Draw(t, l) + rapid.IntRange(-40, 40).Draw(t, l+"off")
	}
	mk := func(l string, n int) h.Spec {
		d := h.GenDigitsN(t, l, n)
		return h.Spec{F: "f", D: d, E: int64(rapid.IntRange(-60, 60).Draw(t, l+"e")) + int64(n)/2, Neg: rapid.Bool().Draw(t, l+"neg"), P: uint(len(d)), M: h.GenMode(t, l+"m")}
	}
	switch c.Op {
	case "quo":
		// long quotient of short or long operands
		c.X = mk("hx", rapid.SampledFrom([]int{1, 5, 40, 3000, 40000}).Draw(t, "hxn"))
		c.Y = mk("hy", rapid.SampledFrom([]int{1, 3, 19, 40, 2000, 20000}).Draw(t, "hyn"))
		c.P = uint(size("hp"))
	case "set":
		c.X = mk("hx", size("hxn"))
		c.P = uint(rapid.IntRange(1, len(c.X.D)).Draw(t, "hp"))
	default:
		c.X = mk("hx", size("hxn"))
		c.Y = mk("hy", rapid.SampledFrom([]int{1, 40, 3000, 40000, 100000}).Draw(t, "hyn"))
		c.Y.E = c.X.E + int64(rapid.IntRange(-200, 200).Draw(t, "hye"))
		c.P = uint(rapid.IntRange(1, len(c.X.D)+len(c.Y.D)).Draw(t, "hp"))
	}
	return c
}

func genC01(t *rapid.T) C01Case {
	if h.Rare(t, "huge", 4000) {
		return genC01Huge(t)
	}
	c := genC01base(t)
	if rapid.IntRange(0, 5).Draw(t, "aliased") != 0 {
		return c
	}
	var which string
	switch c.Op {
	case "add", "sub", "mul", "quo":
		which = rapid.SampledFrom([]string{"x", "y"}).Draw(t, "alias")
	case "set", "neg", "abs":
		which = "x"
	default:
		return c
	}
	s := &c.X
	if which == "y" {
		s = &c.Y
	}
	if s.F == "f" && uint(len(s.D)) > c.P {
		c.P = uint(len(s.D)) + uint(rapid.IntRange(0, 3).Draw(t, "aliasp"))
	}
	if c.Op == "quo" && int(c.P) > quoPrecLimit() {
		return c
	}
	s.P, s.M, s.Hist = c.P, c.M, "acc"
	c.Alias = which
	return c
}

func mkRecv(p uint, m uint8) *decimal.Decimal {
	return new(decimal.Decimal).SetMode(decimal.RoundingMode(m)).SetPrec(p)
}

// c01Model returns the model outcome and the exact result (for labels).
func c01Model(c C01Case) (model.Res, model.X) {
	x := c.X.Val()
	p, m := uint64(c.P), model.Mode(c.M)
	switch c.Op {
	case "add":
		return model.Sum(x, c.Y.Val(), p, m), model.AddXP(x, c.Y.Val(), p)
	case "sub":
		return model.Diff(x, c.Y.Val(), p, m), model.AddXP(x, c.Y.Val().Negate(), p)
	case "mul":
		return model.Prod(x, c.Y.Val(), p, m), model.MulX(x, c.Y.Val())
	case "quo":
		return model.Quot(x, c.Y.Val(), p, m), model.QuoX(x, c.Y.Val(), p)
	case "set":
		return model.SetVal(x, p, m), model.X{Val: x}
	case "setprec":
		if c.P == 0 {
			acc := model.Below
			if x.Neg {
				acc = model.Above
			}
			return model.Res{V: model.MkZero(x.Neg), Acc: acc}, model.X{Val: x}
		}
		return model.SetVal(x, p, m), model.X{Val: x}
	case "neg":
		r := model.SetVal(x, p, m)
		r.V = r.V.Negate()
		r.Acc = -r.Acc
		return r, model.X{Val: x}
	case "abs":
		r := model.SetVal(x, p, m)
		if r.V.Neg {
			r.V = r.V.Negate()
			r.Acc = -r.Acc
		}
		return r, model.X{Val: x}
	}
	panic("bad op " + c.Op)
}

func c01Exec(c C01Case) *decimal.Decimal {
	z, _, _ := c01ExecOps(c)
	return z
}

// c01ExecOps also returns the operand variables (nil when the operation has none / one).
// c01Before holds the operand snapshots taken by the last c01ExecOps call (single-threaded use only).
var c01Before [2]h.Snap

func c01ExecOps(c C01Case) (z, xo, yo *decimal.Decimal) {
	x := c.X.Build()
	var y *decimal.Decimal
	switch c.Op {
	case "add", "sub", "mul", "quo":
		y = c.Y.Build()
	}
	c01Before[0] = h.Read(x)
	if y != nil {
		c01Before[1] = h.Read(y)
	}
	z = mkRecv(c.P, c.M)
	switch c.Alias {
	case "x":
		z = x
	case "y":
		z = y
	}
	switch c.Op {
	case "add":
		z.Add(x, y)
	case "sub":
		z.Sub(x, y)
	case "mul":
		z.Mul(x, y)
	case "quo":
		z.Quo(x, y)
	case "set":
		z.Set(x)
	case "neg":
		z.Neg(x)
	case "abs":
		z.Abs(x)
	case "setprec":
		z = x
		z.SetPrec(c.P)
	}
	return z, x, y
}

func checkC01(c C01Case, o *h.Obs) *h.Fail {
	if c.Op == "grid:periodic-quotients" {
		// replay of a failure of the enumerated part
		o.Label(c.Op)
		return c01PeriodicQuotients()
	}
	if c.Op == "grid:carry-cases" {
		o.Label(c.Op)
		return c01CarryCases()
	}
	if c.P == 0 && c.Op != "setprec" {
		return h.Failf("bad-case", "precision 0")
	}
	want, exact := c01Model(c)
	zd, xd, yd := c01ExecOps(c)
	got := h.Read(zd)
	// operands that are not the receiver keep value and attributes (also for operands of a thousand words)
	if xd != nil && xd != zd {
		if xs := h.Read(xd); !xs.SameAll(c01Before[0]) {
			return h.Failf("operand-modified", "%s changed its first operand: %v is now %v", c.Op, c01Before[0], xs)
		}
	}
	if yd != nil && yd != zd {
		if ys := h.Read(yd); !ys.SameAll(c01Before[1]) {
			return h.Failf("operand-modified", "%s changed its second operand: %v is now %v", c.Op, c01Before[1], ys)
		}
	}
	cls := model.Classify(exact, uint64(c.P))
	if c.P == 0 {
		cls = "prec0"
	}
	o.Label(c.Op)
	if c.Alias != "" {
		o.Label("aliased-receiver")
	}
	o.Label(c.Op + ":" + cls)
	o.Labelf("mode:%v", model.Mode(c.M))
	if want.Acc != model.Exact || want.V.Form != model.Finite {
		o.NonTrivial()
	}
	if got.Malformed != "" {
		return h.Failf("malformed", "%s result %v", c.Op, got)
	}
	if (len(c.X.D)+int(c.P))%3 == 0 {
		// in a third of the cases: the result must be the receiver's own, still intact after unrelated operations
		// on other variables have cycled the library's pooled scratch buffers
		h.DisturbPool()
		if again := h.Read(zd); !again.SameAll(got) {
			return h.Failf("unstable", "%s gave %v, but after unrelated operations on other variables the receiver reads %v", c.Op, got, again)
		}
	}
	if !got.Val().Equal(want.V) {
		return h.Failf("value", "%s: got %v, exact result %v rounded once to %d digits %v is %v", c.Op, got.Val(), exact, c.P, model.Mode(c.M), want.V)
	}
	return nil
}

const ruleC01 = "rapid-generated (op, operands, receiver precision, mode) for add/sub/mul/quo/set/setprec/neg/abs: operands from word-patterned digit generators (0, 10^19-1, 5*10^18, 10^k, 10^k-1 words, uniform filler), result-directed constructions (chosen exact sum split into addends; x=q*y(+r) with q carrying a tie / all-nines / just-above / just-below pattern at the precision), products that are round numbers or miss one by less than a factor (2^a m x 5^a n; ceil or floor of 10^k / y times y), short operands with long terminating quotients (divisors 2^a 5^b, a up to 2600, the receiver holding the whole expansion or a few digits less), a power of ten minus about half a unit of the result's last place (the difference drops into the decade below; tie / just below / just above decided one to several words further down), near-total cancellation, exponents at both ends of the int32 range, zero addends, an addend 4096 .. 140000 digits below the other (a few per run: 2^20 .. 2^27 digits below), dividends of 19500-24000 digits against short divisors (random, or an exact multiple of the divisor followed by zeros and one stray digit anywhere in the tail, the mantissa zero-padded below it), receivers aliased to an operand, about one case in 4000 with operands or precisions of 32768..131072 digits; oracle = math/big exact result rounded once by the reference Round (range rule included), compared on sign, digits, exponent read back through BitsExp; operands that are not the receiver must be unchanged; in a third of the cases the receiver is read again after a fixed batch of unrelated divisions, products and a square root on private variables (pooled scratch buffers cycled) and must not have changed. Non-trivial = the model result is inexact or left the finite range (rounding, overflow, underflow happened); distinct = distinct case encodings. Bounds: exponent gap of sums <= 600 (quick) / 6000 (thorough) digits, Quo precision <= 2000 / 40000, operands <= 2500 / 20000 digits."

var propC01 = &h.Prop[C01Case]{ID: "C01", Rule: ruleC01, Gen: genC01, Check: checkC01, Matchers: map[string]func(C01Case) bool{}}

func TestC01(t *testing.T)       { propC01.Search(t) }
func TestC01Replay(t *testing.T) { propC01.Replay(t) }

func mustJSON(v interface{}) []byte {
	b, err := json.Marshal(v)
	if err != nil {
		panic(err)
	}
	return b
}

// c01HugeGapCases: sums and differences whose addends lie hundreds of millions (quick) to more than 2^31
// (thorough) digits apart. The library really aligns the operands (a shift by the gap: 0.1 GB of words for 2^28
// digits, 1 GB for 2^31), so these are a fixed handful enumerated on every run rather than a generated class; the
// reference needs no such work (model.AddXP keeps the leading digits and a sticky flag).
func c01HugeGapCases() []C01Case {
	type shape struct {
		xd, yd string
		xe, ye int64
		p      uint
	}
	shapes := []shape{
		{"1", "1", 3, 3 - (1<<28 + 7), 34},
		{"25", "7", 100000000, 100000000 - (1<<28 + 1<<27), 2},
		{"1", "3", 1 << 27, -(1 << 27) - 40, 1},
	}
	if h.Thorough() {
		shapes = append(shapes,
			shape{"1", "1", 1073741834, -1073741834, 20},
			shape{"95", "5", 1 << 30, -(1 << 30) - 1000, 2},
			shape{"1", "1", 600000000, 600000000 - (1 << 29), 19})
	}
	var out []C01Case
	for i, s := range shapes {
		for _, op := range []string{"add", "sub"} {
			for _, m := range []uint8{uint8(model.ToNearestEven), uint8(model.AwayFromZero), uint8(model.ToZero), uint8(model.ToPositiveInf)} {
				if (int(m)+i)%2 == 1 && !h.Thorough() && i > 0 {
					continue // quick: every mode on the first shape, half of them on the others
				}
				c := C01Case{Op: op, P: s.p, M: m,
					X: h.Spec{F: "f", D: s.xd, E: s.xe, P: uint(len(s.xd)), M: m},
					Y: h.Spec{F: "f", D: s.yd, E: s.ye, P: uint(len(s.yd)) + 3, M: 0}}
				if i%2 == 1 {
					c.X, c.Y = c.Y, c.X
				}
				out = append(out, c)
			}
		}
	}
	return out
}

// c01CarryCases: a mantissa of 1.33 and of 2.6 million digits (70 000 / 137 000 words; 5.3 million in the thorough tier), all nines or 1 0...0 1, meeting an addend at its
// very bottom, so that a carry or borrow runs through the whole mantissa while the receiver keeps 19 or 34 digits.
// The expected results are known by construction (no big-integer arithmetic on a million digits per case).
func c01CarryCases() *h.Fail {
	ks := []int{1330000, 2600000}
	if h.Thorough() {
		ks = append(ks, 5300000)
	}
	for _, K := range ks {
		if f := c01CarryCasesK(K); f != nil {
			return f
		}
	}
	return nil
}

func c01CarryCasesK(K int) *h.Fail {
	nines := h.Spec{F: "f", D: strings.Repeat("9", K), E: 0, P: uint(K)}                     // 1 - 10^-K
	onePlus := h.Spec{F: "f", D: "1" + strings.Repeat("0", K-1) + "1", E: 1, P: uint(K + 1)} // 1 + 10^-K
	unit := func(d string) h.Spec { return h.Spec{F: "f", D: d, E: int64(-K + 1), P: 3} }    // d x 10^-K
	type tc struct {
		op      string
		x, y    h.Spec
		p       uint
		m       model.Mode
		digits  string
		exp     int64
		acc     model.Acc
		comment string
	}
	n19 := strings.Repeat("9", 19)
	cases := []tc{
		{"add", nines, unit("1"), 34, model.ToNearestEven, "1", 1, model.Exact, "(1-10^-K) + 10^-K = 1"},
		{"add", unit("1"), nines, 34, model.ToZero, "1", 1, model.Exact, "10^-K + (1-10^-K) = 1"},
		{"sub", nines, unit("1"), 34, model.ToNearestEven, "1", 1, model.Above, "(1-10^-K) - 10^-K"},
		{"sub", onePlus, unit("2"), 19, model.ToNearestEven, "1", 1, model.Above, "(1+10^-K) - 2x10^-K = 1-10^-K"},
		{"sub", onePlus, unit("2"), 19, model.ToZero, n19, 0, model.Below, "(1+10^-K) - 2x10^-K = 1-10^-K"},
		{"sub", onePlus, unit("1"), 19, model.AwayFromZero, "1", 1, model.Exact, "(1+10^-K) - 10^-K = 1"},
		{"add", onePlus, unit("3"), 19, model.AwayFromZero, "1000000000000000001", 1, model.Above, "(1+10^-K) + 3x10^-K"},
	}
	for _, c := range cases {
		x, y := c.x.Build(), c.y.Build()
		z := mkRecv(c.p, uint8(c.m))
		if c.op == "add" {
			z.Add(x, y)
		} else {
			z.Sub(x, y)
		}
		got := h.Read(z)
		want := model.MkFinite(false, c.digits, c.exp)
		if got.Malformed != "" || !got.Val().Equal(want) || model.Acc(got.Acc) != c.acc {
			return h.Failf("carry", "%s with K = %d at precision %d %v: got %v (%v), want %v (%v)", c.comment, K, c.p, c.m, got.Val(), model.Acc(got.Acc), want, c.acc)
		}
	}
	h.AddExtra("C01", "million_digit_carry_cases", len(cases))
	return nil
}

func TestC01Grid(t *testing.T) {
	defer h.WriteStats("C01")
	n := 0
	for _, c := range c01HugeGapCases() {
		o := &h.Obs{}
		o.Label("huge-gap")
		if f := propC01.SafeCheck(c, o); f != nil {
			h.ReportGridFail(t, "C01", f, mustJSON(c))
		}
		h.RecordGrid("C01", o, c)
		n++
	}
	h.AddExtra("C01", "huge_gap_cases_enumerated", n)
	if f := c01PeriodicQuotients(); f != nil {
		h.ReportGridFail(t, "C01", f, []byte(`{"op":"grid:periodic-quotients"}`))
	}
	if f := c01CarryCases(); f != nil {
		h.ReportGridFail(t, "C01", f, []byte(`{"op":"grid:carry-cases"}`))
	}
}

// c01PeriodicQuotients: quotients of more than 2^20 words (twenty million digits; 2^21 words in the thorough tier)
// by a one-word divisor, a size class the random search cannot afford with a big-integer oracle. The expected digits
// are periodic and are compared word by word: 0.99..9 (76000 nines) / 3 = 0.33..3 exactly, then 1/3, 2/3 and 1/7 into
// the same receiver (so that buffers, pooled or not, are reused after a longer dividend), ToZero and AwayFromZero.
func c01PeriodicQuotients() *h.Fail {
	sizes := []int{1<<20 + 2}
	if h.Thorough() {
		sizes = append(sizes, 1<<21+1)
	}
	n := 0
	for _, words := range sizes {
		prec := uint(words * h.DW)
		z := mkRecv(prec, uint8(model.ToZero))
		three := new(decimal.Decimal).SetInt64(3)
		seven := new(decimal.Decimal).SetInt64(7)
		one := new(decimal.Decimal).SetInt64(1)
		two := new(decimal.Decimal).SetInt64(2)
		nines := h.Spec{F: "f", D: strings.Repeat("9", 4000*h.DW), E: 0, P: 4000 * h.DW}.Build()
		// expect: digit k (0-based from the top) of the stored mantissa, for k < nd; all further digits zero
		check := func(what string, nd int, digit func(k int) byte, lastUp bool, acc decimal.Accuracy, exp int) *h.Fail {
			n++
			mant, e := z.BitsExp()
			if int64(e) != int64(exp) || z.Acc() != acc || z.Signbit() {
				return h.Failf("value", "%s at %d digits: exponent %d accuracy %v, want %d %v", what, prec, e, z.Acc(), exp, acc)
			}
			nw := (nd + h.DW - 1) / h.DW
			if len(mant) < nw || len(mant) > words {
				return h.Failf("value", "%s at %d digits: mantissa of %d words, want %d..%d", what, prec, len(mant), nw, words)
			}
			for i := 0; i < len(mant); i++ { // i-th word from the top
				var w uint64
				for j := 0; j < h.DW; j++ {
					k := i*h.DW + j
					d := byte(0)
					if k < nd {
						d = digit(k)
						if lastUp && k == nd-1 {
							d++
						}
					}
					w = w*10 + uint64(d)
				}
				if got := uint64(mant[len(mant)-1-i]); got != w {
					return h.Failf("value", "%s at %d digits: word %d from the top is %019d, want %019d", what, prec, i, got, w)
				}
			}
			return nil
		}
		z.Quo(nines, three)
		if f := check("0.99..9(76000 nines)/3", 4000*h.DW, func(int) byte { return 3 }, false, decimal.Exact, 0); f != nil {
			return f
		}
		z.Quo(one, three)
		if f := check("1/3 ToZero", int(prec), func(int) byte { return 3 }, false, decimal.Below, 0); f != nil {
			return f
		}
		z.SetMode(decimal.AwayFromZero).Quo(two, three)
		if f := check("2/3 AwayFromZero", int(prec), func(int) byte { return 6 }, true, decimal.Above, 0); f != nil {
			return f
		}
		z.Quo(nines, seven) // dirty every buffer again with an unrelated long dividend
		z.SetMode(decimal.ToZero).Quo(one, seven)
		if f := check("1/7 ToZero", int(prec), func(k int) byte { return "142857"[k%6] - '0' }, false, decimal.Below, 0); f != nil {
			return f
		}
	}
	h.AddExtra("C01", "periodic_quotients_checked", n)
	return nil
}
