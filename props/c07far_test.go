//go:build verif

package props

import (
	"sync"
	"syscall"
	"unsafe"

	"github.com/db47h/decimal"
)

// Two word vectors whose addresses agree in their low 32 bits (4 GiB apart inside one sparse anonymous mapping):
// kernels that decide "destination is the source" by comparing pointers must compare all 64 bits.
var (
	farOnce sync.Once
	farMem  []byte
)

const farWords = 2048

// farPair returns two distinct n-word slices (n <= farWords) 4 GiB apart, or ok=false when the mapping is refused.
func farPair(n int) (a, b []decimal.Word, ok bool) {
	farOnce.Do(func() {
		m, err := syscall.Mmap(-1, 0, 1<<32+farWords*8, syscall.PROT_READ|syscall.PROT_WRITE, syscall.MAP_PRIVATE|syscall.MAP_ANON|syscall.MAP_NORESERVE)
		if err == nil {
			farMem = m
		}
	})
	if farMem == nil || n > farWords {
		return nil, nil, false
	}
	a = unsafe.Slice((*decimal.Word)(unsafe.Pointer(&farMem[0])), farWords)[:n:n]
	b = unsafe.Slice((*decimal.Word)(unsafe.Pointer(&farMem[1<<32])), farWords)[:n:n]
	return a, b, true
}
