//go:build verif

package props

import (
	"runtime/debug"
	"sync"
	"syscall"
	"unsafe"

	"github.com/db47h/decimal"
)

// Two word vectors whose addresses agree in their low 32 bits (4 GiB apart inside one sparse anonymous mapping):
// kernels that decide "destination is the source" by comparing pointers must compare all 64 bits.
var (
	farOnce sync.Once
	farMem  []byte
)

const farWords = 2048

// farPair returns two distinct n-word slices (n <= farWords) 4 GiB apart, or ok=false when the mapping is refused.
func farPair(n int) (a, b []decimal.Word, ok bool) {
	farOnce.Do(func() {
		m, err := syscall.Mmap(-1, 0, 1<<32+farWords*8, syscall.PROT_READ|syscall.PROT_WRITE, syscall.MAP_PRIVATE|syscall.MAP_ANON|syscall.MAP_NORESERVE)
		if err == nil {
			farMem = m
		}
	})
	if farMem == nil || n > farWords {
		return nil, nil, false
	}
	debug.SetPanicOnFault(true) // per goroutine: both vectors start at the first word of their mapping
	a = unsafe.Slice((*decimal.Word)(unsafe.Pointer(&farMem[0])), farWords)[:n:n]
	b = unsafe.Slice((*decimal.Word)(unsafe.Pointer(&farMem[1<<32])), farWords)[:n:n]
	return a, b, true
}

// Guard pages: a ring of small mappings, each two accessible pages between two inaccessible ones. guardedCopy
// places a copy of v so that it ends exactly at the upper guard page (atEnd) or starts exactly after the lower one.
const guardSlots = 8

var (
	guardOnce sync.Once
	guardMem  [guardSlots][]byte
	guardNext int
	pageSize  = syscall.Getpagesize()
)

const guardPages = 10 // accessible pages per slot: vectors of up to 5000 words

func guardedCopy(v []decimal.Word, atEnd bool) ([]decimal.Word, bool) {
	guardOnce.Do(func() {
		for i := range guardMem {
			m, err := syscall.Mmap(-1, 0, (guardPages+2)*pageSize, syscall.PROT_READ|syscall.PROT_WRITE, syscall.MAP_PRIVATE|syscall.MAP_ANON)
			if err != nil {
				return
			}
			if syscall.Mprotect(m[:pageSize], syscall.PROT_NONE) != nil || syscall.Mprotect(m[(guardPages+1)*pageSize:], syscall.PROT_NONE) != nil {
				return
			}
			guardMem[i] = m
		}
		// faults in this memory become panics of the faulting goroutine instead of killing the process
		debug.SetPanicOnFault(true)
	})
	m := guardMem[guardNext%guardSlots]
	if m == nil || len(v)*8 > guardPages*pageSize || len(v) == 0 {
		return nil, false
	}
	guardNext++
	debug.SetPanicOnFault(true) // per goroutine
	body := m[pageSize : (guardPages+1)*pageSize]
	var p unsafe.Pointer
	if atEnd {
		p = unsafe.Pointer(&body[len(body)-len(v)*8])
	} else {
		p = unsafe.Pointer(&body[0])
	}
	g := unsafe.Slice((*decimal.Word)(p), len(v))[:len(v):len(v)]
	copy(g, v)
	return g, true
}
