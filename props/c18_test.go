package props

import (
	"encoding/json"
	"fmt"
	"os"
	"path/filepath"
	"runtime"
	"sync"
	"sync/atomic"
	"testing"

	"github.com/db47h/decimal"
	"pgregory.net/rapid"

	"verif/h"
	"verif/model"
)

// C18: Decimals can be shared read-only between goroutines.

type ConcOp struct {
	K string `json:"k"`
	A []int  `json:"a,omitempty"` // indices into the shared pool
	P uint   `json:"p,omitempty"`
	M uint8  `json:"m,omitempty"`
}

type C18Case struct {
	Pool  []h.Spec   `json:"pool"`
	Progs [][]ConcOp `json:"progs"`
	Procs int        `json:"procs"`
}

var concKinds = []string{"add", "sub", "mul", "sqr", "quo", "quo", "fma", "sqrt", "cmp", "text", "format", "wideformat", "float64", "int", "gob", "marshaltext", "set", "gc", "gosched"}

// c18Epoch counts the workloads of this process: the wide formats of each workload are a little wider, and their runs
// of zeros a little longer, than any the process has produced before (whatever the library sets up or grows lazily for
// such output is then grown while other goroutines are formatting). Read once per workload; the concurrent and the
// sequential run of a workload use the same value.
var c18Epoch atomic.Int64
var c18EpochNow int64

func c18MaxDigits() int {
	if h.Thorough() {
		return 8000
	}
	return 4000
}

func genC18(t *rapid.T) C18Case {
	c := C18Case{Procs: rapid.SampledFrom([]int{1, 2, 4, 16}).Draw(t, "procs")}
	np := rapid.IntRange(2, 6).Draw(t, "npool")
	for i := 0; i < np; i++ {
		var s h.Spec
		switch rapid.IntRange(0, 7).Draw(t, "size") {
		case 6:
			// shared zeros and infinities: the special-value branches read (and must only read) the other operand
			s = h.GenSpecial(t, "special", rapid.SampledFrom([]string{"z", "z", "i"}).Draw(t, "sp"))
			s.Hist = ""
			c.Pool = append(c.Pool, s)
			continue
		case 7:
			// short values below one: 'f' formatting at or above the leading digit, quotients with long expansions
			s = h.Spec{F: "f", D: h.GenDigitsN(t, "tiny", rapid.IntRange(1, 6).Draw(t, "tinyn")), E: int64(-rapid.IntRange(0, 8).Draw(t, "tinye")), Neg: rapid.Bool().Draw(t, "tinyneg"), M: h.GenMode(t, "m")}
			s.P = uint(len(s.D)) + uint(rapid.IntRange(0, 40).Draw(t, "p"))
			c.Pool = append(c.Pool, s)
			continue
		case 0:
			s = h.GenFinite(t, "small", 60)
		case 1:
			// straddle the Karatsuba threshold (30 words = 570 digits)
			s = h.Spec{F: "f", D: h.GenDigitsN(t, "kar", rapid.IntRange(500, 700).Draw(t, "karn")), M: h.GenMode(t, "m")}
		case 2:
			// straddle the recursive division threshold (100 words = 1900 digits)
			s = h.Spec{F: "f", D: h.GenDigitsN(t, "div", rapid.IntRange(1800, 2100).Draw(t, "divn")), M: h.GenMode(t, "m")}
		default:
			s = h.Spec{F: "f", D: h.GenDigits(t, "big", c18MaxDigits()), M: h.GenMode(t, "m")}
		}
		s.E = int64(rapid.IntRange(-50, 50).Draw(t, "e")) + int64(len(s.D))/2
		s.Neg = rapid.IntRange(0, 3).Draw(t, "neg") == 0
		s.P = uint(len(s.D)) + uint(rapid.IntRange(0, 40).Draw(t, "p"))
		s.Hist = rapid.SampledFrom([]string{"", "", "cap", "acc"}).Draw(t, "h")
		c.Pool = append(c.Pool, s)
	}
	if h.Rare(t, "hugeconc", 40) {
		// scratch requests of 4096 words and more (recursive division by 1400+ words, Karatsuba on 1400+ words): a
		// size-keyed side buffer would only be touched here
		mk := func(l string, n int) h.Spec {
			d := h.GenDigitsN(t, l, n)
			return h.Spec{F: "f", D: d, E: int64(n / 2), P: uint(len(d)), M: h.GenMode(t, l+"m")}
		}
		nb := rapid.SampledFrom([]int{26000, 28500, 31000, 40000}).Draw(t, "hugeb")
		c.Pool = []h.Spec{mk("hx", 2*nb+rapid.IntRange(-100, 100).Draw(t, "hxo")), mk("hy", nb), mk("hs", 30)}
		c.Progs = nil
		for g := rapid.IntRange(2, 5).Draw(t, "hugeg"); g > 0; g-- {
			var prog []ConcOp
			for i := rapid.IntRange(1, 2).Draw(t, "hugen"); i > 0; i-- {
				prog = append(prog, ConcOp{K: rapid.SampledFrom([]string{"quo", "quo", "mul", "sqr"}).Draw(t, "hk"), A: []int{0, 1, 2}, P: uint(nb + rapid.IntRange(0, 50).Draw(t, "hp")), M: h.GenMode(t, "hm")})
			}
			c.Progs = append(c.Progs, prog)
		}
		return c
	}
	k := rapid.IntRange(2, 8).Draw(t, "goroutines")
	for g := 0; g < k; g++ {
		n := rapid.IntRange(1, 8).Draw(t, "nops")
		var prog []ConcOp
		for i := 0; i < n; i++ {
			op := ConcOp{K: rapid.SampledFrom(concKinds).Draw(t, "k"), M: h.GenMode(t, "m")}
			for j := 0; j < 3; j++ {
				op.A = append(op.A, rapid.IntRange(0, np-1).Draw(t, "a"))
			}
			op.P = uint(rapid.IntRange(1, 300).Draw(t, "p"))
			if rapid.IntRange(0, 3).Draw(t, "pbig") == 0 {
				op.P = uint(rapid.IntRange(300, c18MaxDigits()).Draw(t, "pb"))
			}
			prog = append(prog, op)
		}
		c.Progs = append(c.Progs, prog)
	}
	return c
}

func runConcProg(pool []*decimal.Decimal, prog []ConcOp) (res []string) {
	for _, op := range prog {
		z := mkRecv(op.P, op.M)
		a := func(i int) *decimal.Decimal { return pool[op.A[i]] }
		nan := h.CatchNaN(func() {
			switch op.K {
			case "add":
				z.Add(a(0), a(1))
			case "sub":
				z.Sub(a(0), a(1))
			case "mul":
				z.Mul(a(0), a(1))
			case "sqr":
				z.Mul(a(0), a(0))
			case "quo":
				z.Quo(a(0), a(1))
			case "fma":
				z.FMA(a(0), a(1), a(2))
			case "sqrt":
				z.Sqrt(z.Abs(a(0)))
			case "set":
				z.Set(a(0))
			case "cmp":
				res = append(res, fmt.Sprint(a(0).Cmp(a(1)), a(1).Cmp(a(0))))
			case "text":
				res = append(res, a(0).Text('e', int(op.P%40)), a(0).Text('g', -1))
				if mp := a(0).MinPrec(); mp < 200 {
					res = append(res, a(0).Text('f', int(op.P%5)), fmt.Sprintf("%.1f|%8.3f", a(0), a(1)))
				}
			case "format":
				res = append(res, fmt.Sprintf("%.20e|%v|%+.3f", a(0), a(1), a(0)))
			case "wideformat":
				// fields hundreds of bytes wider than the text, padded with blanks by one goroutine and with zeros by
				// another; f and e texts with runs of zeros that grow from workload to workload
				w := 256 + int(op.P%700) + int(c18EpochNow%4000)
				if mp := a(0).MinPrec(); mp < 200 && a(0).MantExp(nil) < 400 && a(0).MantExp(nil) > -400 {
					if op.M%2 == 0 {
						res = append(res, fmt.Sprintf("%*.*f|%-*.3e", w, int(op.P%7), a(0), w+13, a(0)))
					} else {
						res = append(res, fmt.Sprintf("%0*.*f|%0*.3e", w+1, int(op.P%7), a(0), w+7, a(0)))
					}
				}
				run := 64 + int(c18EpochNow)*3 + int(op.P%50)
				big := new(decimal.Decimal).SetPrec(3).SetMantExp(decimal.NewDecimal(int64(1+op.P%9), 0), run)
				small := new(decimal.Decimal).SetPrec(3).SetMantExp(decimal.NewDecimal(int64(1+op.P%9), 0), -run)
				res = append(res, big.Text('f', int(op.P%3)), small.Text('f', run+5), big.Text('e', run+int(op.P%11)))
			case "float64":
				f, acc := a(0).Float64()
				res = append(res, fmt.Sprint(f, acc))
			case "int":
				i, acc := a(0).Int(nil)
				res = append(res, fmt.Sprint(i, acc))
			case "gob":
				b, err := a(0).GobEncode()
				res = append(res, fmt.Sprintf("%x %v", b, err))
			case "marshaltext":
				b, err := a(0).MarshalText()
				res = append(res, fmt.Sprintf("%s %v", b, err))
			case "gc":
				runtime.GC() // empties the sync.Pool of scratch buffers
			case "gosched":
				runtime.Gosched()
			}
		})
		r := h.Read(z)
		res = append(res, fmt.Sprintf("nan=%v %v %v %d %d", nan, r.Val().String(), model.Acc(r.Acc), r.Prec, len(r.Digits)))
		if r.Form == model.Finite {
			res = append(res, r.Digits)
		}
	}
	return res
}

func checkC18(c C18Case, o *h.Obs) *h.Fail {
	// remember the case: a race report aborts the process, the driver then picks this file up
	if out := os.Getenv("VERIF_OUT"); out != "" {
		b, _ := json.Marshal(c)
		_ = os.WriteFile(filepath.Join(out, "last-case-C18.json"), b, 0o644)
	}
	pool := make([]*decimal.Decimal, len(c.Pool))
	before := make([]h.Snap, len(c.Pool))
	bigShared := false
	for i, s := range c.Pool {
		pool[i] = s.Build()
		before[i] = h.Read(pool[i])
		if len(s.D) >= 30*h.DW {
			bigShared = true
		}
	}
	c18EpochNow = c18Epoch.Add(1)
	usesPool := false
	for _, p := range c.Progs {
		for _, op := range p {
			switch op.K {
			case "mul", "sqr", "quo", "fma", "sqrt":
				usesPool = true
			}
		}
	}
	old := runtime.GOMAXPROCS(c.Procs)
	defer runtime.GOMAXPROCS(old)
	got := make([][]string, len(c.Progs))
	var wg sync.WaitGroup
	start := make(chan struct{})
	for g := range c.Progs {
		wg.Add(1)
		go func(g int) {
			defer wg.Done()
			<-start
			got[g] = runConcProg(pool, c.Progs[g])
		}(g)
	}
	close(start)
	wg.Wait()
	// sequential reference (afterwards: whatever the library sets up lazily has been set up under concurrency)
	want := make([][]string, len(c.Progs))
	for g, p := range c.Progs {
		want[g] = runConcProg(pool, p)
	}
	o.Labelf("goroutines=%d", len(c.Progs))
	o.Labelf("procs=%d", c.Procs)
	if len(c.Progs) >= 2 && bigShared && usesPool {
		o.NonTrivial()
	}
	for g := range want {
		if len(want[g]) != len(got[g]) {
			return h.Failf("result", "goroutine %d produced %d results, sequentially %d", g, len(got[g]), len(want[g]))
		}
		for i := range want[g] {
			if want[g][i] != got[g][i] {
				return h.Failf("result", "goroutine %d, result %d differs from the sequential run:\n concurrent: %s\n sequential: %s", g, i, h.FirstN(got[g][i], 300), h.FirstN(want[g][i], 300))
			}
		}
	}
	for i := range pool {
		if after := h.Read(pool[i]); !after.SameAll(before[i]) {
			return h.Failf("operand-modified", "shared operand %d changed: %v -> %v", i, before[i], after)
		}
	}
	return nil
}

const ruleC18 = "rapid-generated workloads under the race detector (GORACE=halt_on_error=1), run with two race builds - the default one and one with -tags decimal_pure_go, because the detector does not see memory accesses made by the amd64 assembly kernels -: a pool of 2-6 shared operands (zeros and infinities; short values below one; small; straddling the Karatsuba threshold of 30 words; straddling the recursive-division threshold of 100 words; up to 4000 (quick) / 8000 (thorough) digits; clean, large-capacity and acc != Exact histories) and 2-8 goroutines each running 1-8 operations (Add, Sub, Mul, Mul(x,x), Quo, FMA, Sqrt, Set, Cmp, Text, Format, Float64, Int, GobEncode, MarshalText, runtime.GC to empty the scratch-buffer pool, Gosched) into receivers of their own; GOMAXPROCS drawn from {1,2,4,16}; about one workload in 40 shares operands of 26000-80000 digits between 2-5 goroutines dividing and multiplying them (scratch requests of 4096 words and more). Enumerated first in every process (TestC18Grid, cold start): 16 goroutines make the process's very first calls of every operation kind at the same moment on shared operands (whatever the library sets up lazily is then set up concurrently), compared with the same programs run sequentially afterwards. Oracle: no race report; every concurrent result equals the result of the same program run sequentially afterwards; wide formats (fields 256..5000 bytes wider than the text, blank- and zero-padded by different goroutines; f and e texts whose runs of zeros grow from workload to workload) among the operations; every shared operand is bit-identical afterwards. Non-trivial = at least two goroutines sharing an operand of >= 30 words with at least one operation that uses pooled scratch space. The race detector flags conflicting unsynchronised accesses that occur in a run largely independent of timing; interleaving-only failures without a race are outside what this search can show (no schedule enumeration)."

var propC18 = &h.Prop[C18Case]{ID: "C18", Rule: ruleC18, Gen: genC18, Check: checkC18, Matchers: map[string]func(C18Case) bool{}}

func TestC18(t *testing.T)       { propC18.Search(t) }
func TestC18Replay(t *testing.T) { propC18.Replay(t) }
