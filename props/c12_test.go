package props

import (
	"fmt"
	"math"
	"math/big"
	"os"
	"strconv"
	"strings"
	"testing"

	"github.com/db47h/decimal"
	"pgregory.net/rapid"

	"verif/h"
	"verif/model"
)

// C12: parsing is exact-then-rounded for decimal literals and total on arbitrary input.

type C12Case struct {
	Kind  string  `json:"kind"`  // "dec" (value known by construction) or "any" (differential with big.Float)
	Entry string  `json:"entry"` // parse setstring parsedecimal unmarshaltext scan
	S     string  `json:"s"`
	Base  int     `json:"base"`
	LV    *h.Spec `json:"lv,omitempty"` // exact value of a "dec" literal
	Sep   bool    `json:"sep,omitempty"`
	P     uint    `json:"p"`
	M     uint8   `json:"m"`
	// Strict: (historic: replay files of former finding F-43 carry it; there is no allowance to switch off any more)
	Strict bool `json:"strict,omitempty"`
}

const c12Alphabet = "0123456789abcdefABCDEFxXoObBpPeE._+-iInNfF zZ\t\n"

func genNonDecLiteral(t *rapid.T) (string, int) {
	base := rapid.SampledFrom([]int{2, 8, 16, 10}).Draw(t, "nb")
	digs := map[int]string{2: "01", 8: "01234567", 16: "0123456789abcdefABCDEF", 10: "0123456789"}[base]
	n := rapid.IntRange(1, 40).Draw(t, "nd")
	var b strings.Builder
	for i := 0; i < n; i++ {
		b.WriteByte(digs[rapid.IntRange(0, len(digs)-1).Draw(t, "dg")])
	}
	m := b.String()
	if pt := rapid.IntRange(-1, n).Draw(t, "pt"); pt >= 0 {
		m = m[:pt] + "." + m[pt:]
	}
	if rapid.IntRange(0, 2).Draw(t, "short") == 0 {
		// short values with long runs of zeros: representable at small precisions, large binary exponent contribution
		k := rapid.IntRange(1, 4).Draw(t, "shortn")
		if k > n {
			k = n
		}
		z1 := strings.Repeat("0", rapid.IntRange(0, 45).Draw(t, "z1"))
		z2 := strings.Repeat("0", rapid.IntRange(0, 45).Draw(t, "z2"))
		digitsOnly := strings.Replace(m, ".", "", 1)[:k]
		switch rapid.IntRange(0, 2).Draw(t, "shortkind") {
		case 0:
			m = "." + z1 + digitsOnly + z2
		case 1:
			m = digitsOnly + z1 + "." + z2
		default:
			m = digitsOnly + "." + z1 + digitsOnly + z2
		}
	}
	if rapid.IntRange(0, 7).Draw(t, "pow5") == 0 {
		// a mantissa rich in factors of five with a matching positive binary exponent: d x 5^v x 2^(v+k) is the short
		// decimal d x 2^k x 10^v, representable at small precisions although mantissa and exponent are both large
		d := new(big.Int).SetInt64(int64(rapid.IntRange(1, 99999).Draw(t, "p5d")))
		v := rapid.IntRange(1, 700).Draw(t, "p5v")
		if rapid.Bool().Draw(t, "p5small") {
			v = rapid.IntRange(20, 130).Draw(t, "p5vs")
		}
		d.Mul(d, new(big.Int).Exp(big.NewInt(5), big.NewInt(int64(v)), nil))
		m = d.Text(base)
		pe := v + rapid.IntRange(-3, 6).Draw(t, "p5k")
		sign := rapid.SampledFrom([]string{"", "-", "+"}).Draw(t, "sg")
		if base == 10 {
			return sign + m + "p" + strconv.Itoa(pe), rapid.SampledFrom([]int{0, 10}).Draw(t, "p5b")
		}
		return sign + map[int]string{2: "0b", 8: "0o", 16: "0x"}[base] + m + "p" + strconv.Itoa(pe), 0
	}
	exp := ""
	switch rapid.IntRange(0, 3).Draw(t, "ex") {
	case 0:
	case 1, 2:
		exp = rapid.SampledFrom([]string{"p", "P"}).Draw(t, "pc") + strconv.Itoa(rapid.IntRange(-1100, 1100).Draw(t, "pe"))
	case 3:
		if base != 16 {
			exp = "e" + strconv.Itoa(rapid.IntRange(-30, 30).Draw(t, "ee"))
		}
	}
	if base == 10 && exp == "" {
		exp = "p" + strconv.Itoa(rapid.IntRange(-200, 200).Draw(t, "pe10"))
	}
	sign := rapid.SampledFrom([]string{"", "-", "+"}).Draw(t, "sg")
	argBase := base
	prefix := ""
	if base != 10 && rapid.Bool().Draw(t, "pref") {
		argBase = 0
		prefix = map[int][]string{2: {"0b", "0B"}, 8: {"0o", "0O"}, 16: {"0x", "0X"}}[base][rapid.IntRange(0, 1).Draw(t, "pfx")]
		if rapid.IntRange(0, 5).Draw(t, "us") == 0 {
			prefix += "_"
		}
	}
	if base == 10 && rapid.Bool().Draw(t, "b0") {
		argBase = 0
	}
	return sign + prefix + m + exp, argBase
}

func mutate(t *rapid.T, s string) string {
	if len(s) == 0 {
		return "_"
	}
	i := rapid.IntRange(0, len(s)-1).Draw(t, "mut.i")
	ch := string(c12Alphabet[rapid.IntRange(0, len(c12Alphabet)-1).Draw(t, "mut.c")])
	switch rapid.IntRange(0, 5).Draw(t, "mut.k") {
	case 0:
		return s[:i] + s[i+1:]
	case 1:
		return s[:i] + ch + s[i:]
	case 2:
		return s[:i] + ch + s[i+1:]
	case 3:
		return s[:i] + s[i:i+1] + s[i:]
	case 4:
		return s + ch
	default:
		return s[:i] + "_" + s[i:]
	}
}

func genC12(t *rapid.T) C12Case {
	c := C12Case{M: h.GenMode(t, "zmode")}
	switch rapid.IntRange(0, 5).Draw(t, "pcls") {
	case 0:
		c.P = 0
	case 1:
		c.P = uint(rapid.IntRange(1, 4).Draw(t, "p"))
	default:
		c.P = uint(rapid.IntRange(1, 80).Draw(t, "p"))
	}
	maxD := 600
	if h.Thorough() {
		maxD = 3000
	}
	if h.Rare(t, "pow2near", 12) {
		return genC12Pow2Near(t)
	}
	if rapid.IntRange(0, 24).Draw(t, "mixed") == 0 {
		// binary / octal mantissa (prefix form) with fractional digits and a DECIMAL 'e' exponent, also at the ends of the
		// int32 range: math/big cannot be asked there, the value is m*2^k (exact, from math/big on the mantissa alone) x 10^e
		c.Kind = "mixed"
		c.Entry = rapid.SampledFrom([]string{"parse", "parse", "setstring", "unmarshaltext", "parsedecimal"}).Draw(t, "entry")
		base := rapid.SampledFrom([]int{2, 8}).Draw(t, "mbase")
		digs := map[int]string{2: "01", 8: "01234567"}[base]
		var b strings.Builder
		n := rapid.IntRange(1, 20).Draw(t, "mn")
		for i := 0; i < n; i++ {
			b.WriteByte(digs[rapid.IntRange(0, len(digs)-1).Draw(t, "mdg")])
		}
		m := b.String()
		pt := rapid.IntRange(0, n).Draw(t, "mpt")
		m = m[:pt] + "." + m[pt:]
		var e int64
		switch rapid.IntRange(0, 3).Draw(t, "mecls") {
		case 0:
			e = int64(rapid.IntRange(-60, 60).Draw(t, "me"))
		case 1:
			e = model.MinExp + int64(rapid.IntRange(-30, 40).Draw(t, "me"))
		case 2:
			e = model.MaxExp + int64(rapid.IntRange(-40, 30).Draw(t, "me"))
		default:
			e = int64(rapid.Int32().Draw(t, "me"))
		}
		c.S = rapid.SampledFrom([]string{"", "-", "+"}).Draw(t, "msign") + map[int]string{2: "0b", 8: "0o"}[base] + m + "e" + strconv.FormatInt(e, 10)
		c.Base = 0
		return c
	}
	if rapid.IntRange(0, 39).Draw(t, "expfield") == 0 {
		// exponent fields at the edges of int64 and int32. Expected outcome from the grammar alone: a field that does
		// not fit an int64 is a syntax-level error; a zero mantissa is zero whatever the (valid) exponent; a non-zero
		// base-10 literal whose scaled exponent leaves the int32 range is rejected
		c.Kind = "expfield"
		c.Entry = rapid.SampledFrom([]string{"parse", "parse", "setstring", "unmarshaltext", "parsedecimal"}).Draw(t, "entry")
		field := rapid.SampledFrom([]string{"9223372036854775807", "-9223372036854775807", "-9223372036854775808", "9223372036854775808", "-9223372036854775809",
			"+9223372036854775807", "99999999999999999999", "-99999999999999999999", "4294967296", "-4294967296", "2147483648", "-2147483649", "-2147483648", "2147483647",
			"-9223372036854775800", "9223372036854775800", "18446744073709551616", "-18446744073709551615", "00000000000000000000001", "-00000000000000000000000000002"}).Draw(t, "field")
		zero := rapid.Bool().Draw(t, "zeromant")
		mant := rapid.SampledFrom([]string{"0", "0.0", ".0", "0.", "000", "0.000000000000000000000000"}).Draw(t, "zm")
		if !zero {
			mant = rapid.SampledFrom([]string{"1", "0.5", "123.456", "9", ".1", "1000000000000000000000000000000"}).Draw(t, "nzm")
		}
		letter := "e"
		if rapid.IntRange(0, 2).Draw(t, "pletter") == 0 {
			letter = "p"
			if !zero {
				// binary exponents far outside, just outside and inside the int32 range
				field = rapid.SampledFrom([]string{"7200000000", "-8000000000", "-7133786264", "7133786265", "4294967296", "-4294967296", "2147483747", "-2147483747", "2147483000", "-2147483000",
					"1000000000", "-1000000000", "-9223372036854775808", "9223372036854775807", "-9223372036854775805", "99999999999999999999", "12345678901"}).Draw(t, "pfield")
			}
		}
		sign := rapid.SampledFrom([]string{"", "-", "+"}).Draw(t, "esign")
		c.S = sign + mant + letter + field
		c.Base = rapid.SampledFrom([]int{0, 10}).Draw(t, "ebase")
		return c
	}
	switch k := rapid.IntRange(0, 9).Draw(t, "kind"); {
	case k <= 4:
		c.Kind = "dec"
		c.Entry = rapid.SampledFrom([]string{"parse", "parse", "setstring", "parsedecimal", "unmarshaltext", "scan", "scanf"}).Draw(t, "entry")
		rp := int(c.P)
		if rp == 0 {
			rp = 34
		}
		l := h.GenDecLiteralAt(t, "lit", maxD, true, rp)
		c.S, c.Sep = l.S, l.Sep
		lv := h.SpecOf(l.V, 0, 0)
		c.LV = &lv
		c.Base = 0
		if c.Entry == "parse" || c.Entry == "parsedecimal" {
			if !l.Sep && rapid.Bool().Draw(t, "b10") {
				c.Base = 10
			}
		}
		if c.Entry == "parsedecimal" && h.Rare(t, "hugeprec", 6) {
			// a precision argument beyond MaxPrec (a uint, unlike the receiver's own uint32 precision): clamped, as SetPrec does
			c.P = rapid.SampledFrom([]uint{1<<32 + 5, 1 << 32, 1<<32 - 1, 1<<32 + 34, 1 << 33, 1<<63 + 7, math.MaxUint64, 1<<40 + 1}).Draw(t, "hugeprecv")
		}
		if c.Entry == "scan" {
			c.S = rapid.SampledFrom([]string{"", " ", "\t ", "\n"}).Draw(t, "lead") + c.S + rapid.SampledFrom([]string{"", " ", " 7", "\n"}).Draw(t, "trail")
		}
	case k <= 6:
		c.Kind = "any"
		c.Entry = "parse"
		c.S, c.Base = genNonDecLiteral(t)
		if rapid.IntRange(0, 2).Draw(t, "mutate") == 0 {
			c.S = mutate(t, c.S)
		}
	case k <= 8:
		c.Kind = "any"
		c.Entry = rapid.SampledFrom([]string{"parse", "parse", "setstring", "unmarshaltext", "parsedecimal"}).Draw(t, "entry")
		l := h.GenDecLiteral(t, "lit", 40, true)
		c.S = mutate(t, l.S)
		if rapid.Bool().Draw(t, "twice") {
			c.S = mutate(t, c.S)
		}
		c.Base = 0
		if c.Entry == "parse" || c.Entry == "parsedecimal" {
			c.Base = rapid.SampledFrom([]int{0, 0, 10, 16, 2, 8}).Draw(t, "base")
		}
	default:
		c.Kind = "any"
		c.Entry = "parse"
		n := rapid.IntRange(0, 12).Draw(t, "len")
		var b strings.Builder
		for i := 0; i < n; i++ {
			b.WriteByte(c12Alphabet[rapid.IntRange(0, len(c12Alphabet)-1).Draw(t, "ch")])
		}
		c.S = b.String()
		if rapid.IntRange(0, 3).Draw(t, "fixed") == 0 {
			c.S = rapid.SampledFrom([]string{"Inf", "+Inf", "-inf", "inf", "INF", "+", "-", ".", "e5", "0x", "0b", "0o", "0x.", "0b2", "0o8", "1e+", "1e-", "1_", "_1", "1__2", "1._2", "1_.2", "0_1", "0x_1", "0x1_", "1e1_0", "1e_1", "1p5", "1.5p-3", "0x1e5", "0x1p5", "0b1e5", "0o7p1", "00", "01", "08", "0.e1", ".e1", "1.e1", "Infx", "+-1", "1 ", " 1", "1e2147483647", "1e2147483648", "1e-2147483648", "1e-2147483649", "0.0001e2147483647", "12345e2147483643", "1e99999999999999999999", "0e99999999999999999999", "",
				"<nil>", "nil", "null", "NaN", "nan", "+NaN", "--Inf", "+-inf", "++Inf", "-+Inf", "+ Inf", "Inf+", "InfInf", "Infinity", "iNF", "INf", "-", "--1", "++1", "+-0", "- 1", "1-", "1+", "1e+-1", "1e--1", "1e++1", "1p+-1", "0x-1", "-0x1", "+0b1", "0x+1p1"}).Draw(t, "fx")
			if rapid.IntRange(0, 3).Draw(t, "fxmut") == 0 {
				c.S = mutate(t, c.S)
			}
		}
		c.Base = rapid.SampledFrom([]int{0, 0, 10, 16, 2, 8}).Draw(t, "base")
		if rapid.IntRange(0, 2).Draw(t, "otherentry") == 0 {
			// the same strings through the entry points that take no base (base 0): they must accept exactly what
			// Parse(s, 0) and math/big accept (an entry point with a shortcut of its own for "Inf" is where a case-
			// insensitive comparison would show)
			c.Entry = rapid.SampledFrom([]string{"setstring", "unmarshaltext", "unmarshaltext", "parsedecimal"}).Draw(t, "hentry")
			c.Base = 0
		}
	}
	return c
}

// c12Call runs one entry point. d is the returned *Decimal (nil allowed), base the detected base (0 if the entry point does not report it).
func c12Call(c C12Case, z *decimal.Decimal) (d *decimal.Decimal, base int, err error) {
	switch c.Entry {
	case "parse":
		return z.Parse(c.S, c.Base)
	case "parsedecimal":
		return decimal.ParseDecimal(c.S, c.Base, c.P, decimal.RoundingMode(c.M))
	case "setstring":
		r, ok := z.SetString(c.S)
		if !ok {
			return r, 0, fmt.Errorf("SetString failed")
		}
		return r, 0, nil
	case "unmarshaltext":
		err = z.UnmarshalText([]byte(c.S))
		if err != nil {
			return nil, 0, err
		}
		return z, 0, nil
	case "scan":
		_, err = fmt.Sscan(c.S, z)
		if err != nil {
			return nil, 0, err
		}
		return z, 0, nil
	case "scanf":
		// the literal directly followed by a separator and a second number: Scan must stop exactly where the
		// number ends and leave the rest to the format
		sep := []string{"-", "+", ":", ",", "/", "-"}[len(c.S)%6]
		z2 := new(decimal.Decimal)
		n, e := fmt.Sscanf(c.S+sep+"7.5", "%v"+sep+"%v", z, z2)
		if e != nil {
			return nil, 0, e
		}
		if want := new(decimal.Decimal).SetInt64(75); n != 2 || z2.Cmp(want.SetMantExp(want, -1)) != 0 {
			return nil, 0, fmt.Errorf("Sscanf(%q): %d items, second one %v (want 7.5)", c.S+sep+"7.5", n, z2)
		}
		return z, 0, nil
	}
	panic(h.BuildError{Msg: "entry " + c.Entry})
}

// expMagnitude extracts the magnitude of the literal's exponent field, if any (0 if none).
func expMagnitude(s string) (mag int64, huge bool) {
	i := strings.LastIndexAny(s, "eEpP")
	if i < 0 {
		return 0, false
	}
	t := strings.TrimLeft(s[i+1:], "+-")
	t = strings.ReplaceAll(t, "_", "")
	j := 0
	for j < len(t) && t[j] >= '0' && t[j] <= '9' {
		j++
	}
	if j == 0 {
		return 0, false
	}
	v, err := strconv.ParseInt(t[:j], 10, 64)
	if err != nil {
		return 0, true
	}
	return v, false
}

func checkC12(c C12Case, o *h.Obs) *h.Fail {
	o.Label(c.Kind + ":" + c.Entry)
	z := mkRecv(c.P, c.M)
	z.SetInt64(42) // previous contents
	d, base, err := c12Call(c, z)
	if c.Entry == "parsedecimal" && d != nil {
		z = d
	}
	got := h.Read(z)
	if got.Malformed != "" {
		return h.Failf("malformed", "receiver after %s(%q): %v", c.Entry, h.FirstN(c.S, 200), got)
	}
	if err != nil && d != nil {
		return h.Failf("nil-on-error", "%s(%q, %d) reports %q but returns a non-nil *Decimal", c.Entry, h.FirstN(c.S, 200), c.Base, err)
	}
	if err == nil && d == nil {
		return h.Failf("nil-on-success", "%s(%q) succeeded with a nil result", c.Entry, h.FirstN(c.S, 200))
	}
	wantPrec := c.P
	if wantPrec == 0 {
		wantPrec = 34
	}
	if wantPrec > model.MaxPrec {
		wantPrec = model.MaxPrec // ParseDecimal's precision argument: "If prec > MaxPrec, it is set to MaxPrec"
		o.Label("precision-argument-beyond-MaxPrec")
	}
	if c.Kind == "grid" {
		// replay of an enumerated case (TestC12Grid): exact expansion of 2^-n
		i := strings.LastIndexByte(c.S, '-')
		n, _ := strconv.Atoi(c.S[i+1:])
		want := model.FromInt(new(big.Int).Exp(big.NewInt(5), big.NewInt(int64(n)), nil), int64(-n))
		if err != nil || !got.Val().Equal(want) || got.Acc != 0 {
			return h.Failf("value", "Parse(%q) at precision %d: err=%v, got %v (accuracy %v), want the exact value", c.S, c.P, err, got.Val(), model.Acc(got.Acc))
		}
		return nil
	}
	switch c.Kind {
	case "dec":
		lv := c.LV.Val()
		inRange := lv.Form != model.Finite || lv.Exp >= model.MinExp && lv.Exp <= model.MaxExp
		// the literal's own exponent field must fit an int64 and the scaled exponent the int32 range
		if !inRange {
			o.Label("dec:exponent-out-of-range")
			o.NonTrivial()
			if err == nil {
				return h.Failf("range", "%s(%q): exponent outside the int32 range accepted as %v", c.Entry, h.FirstN(c.S, 200), got.Val())
			}
			return nil
		}
		if err != nil {
			return h.Failf("rejected", "%s(%q, %d) rejected a valid base-10 literal: %v", c.Entry, h.FirstN(c.S, 200), c.Base, err)
		}
		if (c.Entry == "parse" || c.Entry == "parsedecimal") && base != 10 {
			return h.Failf("base", "%s(%q) reports base %d", c.Entry, h.FirstN(c.S, 200), base)
		}
		want := model.SetVal(lv, uint64(wantPrec), model.Mode(c.M))
		if lv.Form == model.Finite {
			o.Label("dec:" + model.Classify(model.X{Val: lv}, uint64(wantPrec)))
		}
		if want.Acc != model.Exact {
			o.NonTrivial()
		}
		if !got.Val().Equal(want.V) {
			return h.Failf("value", "%s(%q) at precision %d %v: got %v want %v", c.Entry, h.FirstN(c.S, 200), wantPrec, model.Mode(c.M), got.Val(), want.V)
		}
		if model.Acc(got.Acc) != want.Acc {
			return h.Failf("acc", "%s(%q) at precision %d %v: value %v accuracy %v want %v", c.Entry, h.FirstN(c.S, 200), wantPrec, model.Mode(c.M), got.Val(), model.Acc(got.Acc), want.Acc)
		}
		if got.Prec != wantPrec || got.Mode != c.M {
			return h.Failf("attrs", "%s(%q): precision %d mode %v, want %d %v", c.Entry, h.FirstN(c.S, 200), got.Prec, model.Mode(got.Mode), wantPrec, model.Mode(c.M))
		}
		return nil
	}
	if c.Kind == "mixed" {
		return checkC12Mixed(c, o, got, err, wantPrec)
	}
	if c.Kind == "pow2near" {
		return checkC12Pow2Near(c, o, got, err, wantPrec)
	}
	if c.Kind == "expfield" {
		i := strings.LastIndexAny(c.S, "ep")
		mant, field := c.S[:i], c.S[i+1:]
		fv, ok := new(big.Int).SetString(strings.TrimPrefix(field, "+"), 10)
		if !ok {
			return h.Failf("bad-case", "exponent field %q", field)
		}
		o.NonTrivial()
		zero := strings.Trim(mant, "+-0.") == ""
		switch {
		case !fv.IsInt64():
			o.Label("expfield:beyond-int64")
			if err == nil {
				return h.Failf("acceptance", "%s(%q): exponent field beyond int64 accepted as %v", c.Entry, c.S, got.Val())
			}
		case zero:
			o.Label("expfield:zero-mantissa")
			if err != nil {
				return h.Failf("acceptance", "%s(%q, %d): a zero with a valid exponent field rejected: %v", c.Entry, c.S, c.Base, err)
			}
			if got.Form != model.Zero || got.Neg != strings.HasPrefix(mant, "-") {
				return h.Failf("value", "%s(%q) = %v", c.Entry, c.S, got.Val())
			}
		case c.S[i] == 'p':
			// a binary exponent outside the int32 range is rejected (as math/big does); inside it (with a margin for the
			// mantissa's own magnitude) the literal is accepted and the value has the right order of magnitude
			f64 := float64(fv.Int64())
			switch {
			case f64 > math.MaxInt32+100 || f64 < math.MinInt32-100:
				o.Label("expfield:p-beyond-int32")
				if err == nil {
					return h.Failf("acceptance", "%s(%q): binary exponent outside the int32 range accepted as %v", c.Entry, c.S, got.Val())
				}
			case f64 < math.MaxInt32-100 && f64 > math.MinInt32+100:
				o.Label("expfield:p-inside-int32")
				if err != nil {
					return h.Failf("acceptance", "%s(%q, %d): rejected: %v", c.Entry, c.S, c.Base, err)
				}
				mv, _, perr := new(big.Float).SetPrec(200).Parse(strings.TrimLeft(mant, "+-"), 10)
				if perr != nil {
					return h.Failf("bad-case", "mantissa %q: %v", mant, perr)
				}
				m64, _ := mv.Float64()
				wantExp := f64*(math.Ln2/math.Ln10) + math.Log10(m64) // log10 of the value
				if got.Form != model.Finite || math.Abs(float64(got.Exp)-1-wantExp) > 2 || got.Neg != strings.HasPrefix(mant, "-") {
					return h.Failf("value", "%s(%q) = %v, a value of about 10^%.1f expected", c.Entry, c.S, got.Val(), wantExp)
				}
			}
		default:
			// base-10 literal with an 'e' exponent: in range iff the scaled exponent fits
			mv, _, perr := new(big.Float).SetPrec(200).Parse(strings.TrimLeft(mant, "+-"), 10)
			if perr != nil {
				return h.Failf("bad-case", "mantissa %q: %v", mant, perr)
			}
			var adj int64 // adjusted exponent of the mantissa: value = 0.d x 10^adj
			fmt.Sscanf(mv.Text('e', 5)[strings.IndexByte(mv.Text('e', 5), 'e')+1:], "%d", &adj)
			adj++
			scaled := new(big.Int).Add(fv, big.NewInt(adj))
			inRange := scaled.IsInt64() && scaled.Int64() >= model.MinExp && scaled.Int64() <= model.MaxExp
			o.Labelf("expfield:nonzero-inrange=%v", inRange)
			if inRange != (err == nil) {
				return h.Failf("acceptance", "%s(%q, %d): scaled exponent %v (in range: %v) but err=%v", c.Entry, c.S, c.Base, scaled, inRange, err)
			}
		}
		return nil
	}
	// differential with math/big
	mag, huge := expMagnitude(c.S)
	if huge || mag > 10000 || len(c.S) > 5000 {
		o.Label("any:huge-exponent")
		if err != nil {
			o.NonTrivial()
		}
		return nil // totality and nil-on-error were checked above
	}
	bf, bbase, berr := new(big.Float).SetPrec(uint(8*len(c.S)+128)).Parse(c.S, c.Base)
	if (berr == nil) != (err == nil) {
		return h.Failf("acceptance", "%s(%q, %d): decimal err=%v, math/big err=%v", c.Entry, c.S, c.Base, err, berr)
	}
	if err != nil {
		o.Label("any:rejected")
		o.NonTrivial()
		return nil
	}
	o.Label("any:accepted")
	if (c.Entry == "parse" || c.Entry == "parsedecimal") && base != bbase {
		return h.Failf("base", "%s(%q, %d): base %d, math/big says %d", c.Entry, c.S, c.Base, base, bbase)
	}
	// value: exact rational from math/big (exact at that precision)
	if bf.IsInf() {
		if got.Form != model.Inf || got.Neg != bf.Signbit() {
			return h.Failf("value", "%s(%q): got %v want %v", c.Entry, c.S, got.Val(), bf)
		}
		return nil
	}
	if bf.Acc() != big.Exact {
		return nil // cannot happen at this precision for these lengths; be conservative
	}
	r, _ := bf.Rat(nil)
	if r.Sign() == 0 {
		if got.Form != model.Zero || got.Neg != bf.Signbit() {
			return h.Failf("value", "%s(%q): got %v want signed zero (neg=%v)", c.Entry, c.S, got.Val(), bf.Signbit())
		}
		return nil
	}
	ex := model.FromRat(r, uint64(wantPrec))
	fits := !ex.Sticky && uint(len(ex.Digits)) <= wantPrec
	if fits {
		o.Label("any:representable")
		if !got.Val().Equal(ex.Val) {
			return h.Failf("value", "%s(%q, %d) at precision %d: representable value %v stored as %v", c.Entry, c.S, c.Base, wantPrec, ex.Val, got.Val())
		}
		return nil
	}
	o.Label("any:rounded")
	o.NonTrivial()
	return c12Faithful(c, o, got, model.FromRat(r, uint64(wantPrec)+c12ZoneDigits+3), wantPrec, c.S)
}

// c12ZoneDigits: how many digits beyond the precision the labels look at (the window in which the double rounding of
// former finding F-43 showed: literals scaled by a power of two rounded to precision+19 digits and rounded again came
// out on the far side of a number of `precision` digits when the exact value lay closer than about 10^-(precision+17)
// to it). There is no tolerance any more: a result must be one of the two neighbours of the exact value ("within one
// unit in the last place").
const c12ZoneDigits = 16

// c12Faithful: ex holds the exact value cut after at least precision+c12ZoneDigits+1 digits (plus sticky).
func c12Faithful(c C12Case, o *h.Obs, got h.Snap, ex model.X, wantPrec uint, what string) *h.Fail {
	lo, _ := model.Round(ex, uint64(wantPrec), model.ToZero)
	hi, _ := model.Round(ex, uint64(wantPrec), model.AwayFromZero)
	g := got.Val()
	if os.Getenv("VERIF_C12_EXACT") != "" {
		// development aid, not part of any registered command: demand the correctly rounded value and a truthful
		// accuracy (more than the property asks of these literals)
		want, wacc := model.Round(ex, uint64(wantPrec), model.Mode(c.M))
		if !g.Equal(want) || model.Acc(got.Acc) != wacc {
			return h.Failf("exact-mode", "%s(%q, %d) at precision %d %v: got %v (%v), correctly rounded %v (%v)", c.Entry, h.FirstN(what, 200), c.Base, wantPrec, model.Mode(c.M), g, model.Acc(got.Acc), want, wacc)
		}
		return nil
	}
	if g.Equal(lo) || g.Equal(hi) {
		return nil
	}
	return h.Failf("ulp", "%s(%q, %d) at precision %d %v: got %v; the exact value %v lies between %v and %v", c.Entry, h.FirstN(what, 200), c.Base, wantPrec, model.Mode(c.M), g, ex, lo, hi)
}

// checkC12Mixed: literal = [sign] (0b|0o) digits "." digits "e" exp. The mantissa's exact value comes from
// math/big (parsed without the exponent), the decimal exponent is applied symbolically.
func checkC12Mixed(c C12Case, o *h.Obs, got h.Snap, err error, wantPrec uint) *h.Fail {
	i := strings.LastIndexByte(c.S, 'e')
	mant, es := c.S[:i], c.S[i+1:]
	e, perr := strconv.ParseInt(es, 10, 64)
	if perr != nil {
		return h.Failf("bad-case", "exponent %q", es)
	}
	bf, _, berr := new(big.Float).SetPrec(uint(4*len(mant)+64)).Parse(mant, 0)
	if berr != nil || bf.Acc() != big.Exact {
		return h.Failf("INFRA-oracle", "math/big rejects the mantissa %q: %v", mant, berr)
	}
	o.Label("mixed")
	r, _ := bf.Rat(nil)
	if r.Sign() == 0 {
		if err != nil {
			return nil // a zero mantissa with an extreme exponent may be rejected or accepted; nothing demanded
		}
		if got.Form != model.Zero || got.Neg != bf.Signbit() {
			return h.Failf("value", "%s(%q) = %v, want a zero with the literal's sign", c.Entry, c.S, got.Val())
		}
		return nil
	}
	ex := model.FromRat(r, 0)
	if ex.Sticky {
		return h.Failf("INFRA-oracle", "binary mantissa without a terminating expansion")
	}
	ex.Exp += e // exact value of the literal
	if err != nil {
		// rejection is legitimate only at the ends of the exponent range (which of the nearby exponents are
		// rejected depends on the mantissa's digit count: not demanded here)
		if ex.Exp > model.MinExp+80 && ex.Exp < model.MaxExp-80 {
			return h.Failf("rejected", "%s(%q) rejected (%v) although its value %v is far inside the range", c.Entry, c.S, err, ex.Val)
		}
		o.Label("mixed:rejected-at-range-end")
		o.NonTrivial()
		return nil
	}
	want, _ := model.Round(ex, uint64(wantPrec), model.Mode(c.M)) // includes the range rule
	if ex.Exp < model.MinExp+80 || ex.Exp > model.MaxExp-80 {
		o.Label("mixed:at-range-end")
		o.NonTrivial()
	}
	if want.Form != model.Finite || got.Form != model.Finite {
		if !got.Val().Equal(want) {
			return h.Failf("range", "%s(%q) at precision %d %v: got %v, the literal's value %v gives %v", c.Entry, c.S, wantPrec, model.Mode(c.M), got.Val(), ex.Val, want)
		}
		return nil
	}
	if uint(len(ex.Digits)) <= wantPrec {
		if !got.Val().Equal(ex.Val) {
			return h.Failf("value", "%s(%q) at precision %d: representable value %v stored as %v", c.Entry, c.S, wantPrec, ex.Val, got.Val())
		}
		return nil
	}
	o.NonTrivial()
	return c12Faithful(c, o, got, ex, wantPrec, c.S)
}

const ruleC12 = "rapid-generated inputs of three kinds. (dec) base-10 literals of the documented grammar with the value known by construction: sign, digits split around the point anywhere, leading/trailing zeros, '_' separators in legal positions, e/E exponents over the whole int32 range and beyond, up to 600 (quick) / 3000 (thorough) digits with rounding patterns; through Parse, SetString, ParseDecimal, UnmarshalText and Scan (fmt.Sscan with surrounding blanks; fmt.Sscanf with the literal directly followed by -, +, :, comma or / and a second number); receiver precision 0 or 1..80, six modes. Oracle: literal's exact value rounded once (value, accuracy, precision 34 if it was 0, base 10); scaled exponent outside int32 => error. (any) literals in base 2/8/16 or with p exponents, one- and two-character mutations of valid literals (deleted/inserted/replaced/duplicated characters, misplaced '_'), short strings over the alphabet of number characters, a list of hostile constants: acceptance and detected base must coincide with math/big Float.Parse (compared when the exponent field is <= 10000 in magnitude), the value must be exact when its decimal expansion fits the precision and within 1 ulp of the correctly rounded value otherwise (exact rational taken from math/big at a precision that makes it exact). (mixed) binary/octal mantissas with fractional digits and a decimal e exponent over the whole int32 range and at its ends: value = exact binary mantissa (math/big) x 10^e with the range rule (underflow to a signed zero, overflow to infinity), exact when representable, 1 ulp otherwise; rejection accepted only within 80 of a range end. (pow2near) decimal mantissas with a p exponent of any size up to +-(2^31-200), constructed from a chosen P-digit number R, exponent k and closeness c as m = floor or ceil(R*10^j/2^k) with P+c digits, so that m*2^k lies 10^-(P+9)..10^-(P+21) (relative) from R*10^j; reference in 700-bit binary floating point; closeness 10^-(P+9)..10^-(P+21), one case in four 10^-(P+22)..10^-(P+100) (beyond any fixed number of guard digits); the result must be one of the two neighbours of the exact value. The same rule holds for every rounded result of the any and mixed kinds. (expfield) short mantissas with exponent fields at the edges of int64 and int32 (+-2^63, +-(2^63-1), -2^63-1, 2^64, +-2^32, +-2^31, twenty nines, zero-padded fields): a field that does not fit an int64 must be rejected, a zero mantissa with a valid field (e or p) is a signed zero, a non-zero base-10 literal is accepted exactly when its scaled exponent lies in the int32 range; a non-zero mantissa with a p exponent is rejected when the exponent lies outside the int32 range (as math/big does) and otherwise accepted with a value of the right order of magnitude (fields from -2^63 to 2^63-1, +-7.2e9, +-2^32, +-(2^31+100), +-2147483000, +-10^9). Always: no panic, err != nil => returned *Decimal is nil, receiver canonical. Non-trivial = an accepted literal that needs rounding, or a rejected string; distinct by case."

var propC12 = &h.Prop[C12Case]{ID: "C12", Rule: ruleC12, Gen: genC12, Check: checkC12, Matchers: map[string]func(C12Case) bool{}}

func TestC12(t *testing.T)       { propC12.Search(t) }
func TestC12Replay(t *testing.T) { propC12.Replay(t) }

// FuzzParse is the native coverage-guided leg (thorough tier): the "any" oracle (no panic,
// nil on error, acceptance/base/value against math/big) on arbitrary strings.
func FuzzParse(f *testing.F) {
	for _, s := range []string{"0", "-1.5e10", "+Inf", "-inf", "0x1.8p3", "0b1011e2", "0o17", "1_000.5e-3", "0x_Ap-2", ".5", "5.", "1e", "_1", "1__0", "0x", "", "-", "1e99999999999", "1e-2147483648", "9e2147483646", "0.1e2147483647", "0x1p-1074", "0b.1p-10", "1.5p-3", "0X1P+5", "12345678901234567890123456789012345678901234567890e-60", "0.000000000000000000000000000000000000001", "1e2147483648", "0e99999999999999999999"} {
		for _, b := range []uint8{0, 1, 2, 3, 4} {
			f.Add(s, b, uint8(0), uint8(0))
			f.Add(s, b, uint8(7), uint8(4))
		}
	}
	bases := []int{0, 10, 2, 8, 16}
	f.Fuzz(func(t *testing.T, s string, b, p, m uint8) {
		if len(s) > 2000 {
			return
		}
		c := C12Case{Kind: "any", Entry: "parse", S: s, Base: bases[int(b)%len(bases)], P: uint(p % 60), M: m % 6}
		if fail := propC12.SafeCheck(c, &h.Obs{}); fail != nil {
			h.FuzzFail(t, "C12", fail, c)
		}
	})
}

// TestC12Grid: 0x1p-n and 1p-n at a precision that just holds the whole expansion (5^n x 10^-n has ceil(n log10 5)
// digits), for the n at which n*log10(5) comes closest to an integer (the continued-fraction denominators of
// log10(2) and their multiples: 13301, 26602, 28738, ...) and a few round ones: a digit estimate that is a hair
// short shows only there. Expected digits from math/big.
func TestC12Grid(t *testing.T) {
	defer h.WriteStats("C12")
	ns := []int{485, 2136, 13301, 26602, 28738, 39903, 42039}
	if h.Thorough() {
		ns = append(ns, 53204, 55340, 70777, 84078, 141554)
	}
	cnt := 0
	for _, n0 := range ns {
		for _, n := range []int{n0 - 1, n0, n0 + 1} {
			five := new(big.Int).Exp(big.NewInt(5), big.NewInt(int64(n)), nil)
			want := model.FromInt(five, int64(-n))
			for _, lit := range []string{"0x1p-" + strconv.Itoa(n), "1p-" + strconv.Itoa(n)} {
				for _, extra := range []uint{0, 1} {
					c := C12Case{Kind: "grid", Entry: "parse", S: lit, P: uint(len(want.Digits)) + extra}
					z := mkRecv(c.P, uint8(model.ToZero))
					d, _, err := z.Parse(lit, 0)
					got := h.Read(z)
					o := &h.Obs{}
					o.Label("grid:tight-binary-exponent")
					o.NonTrivial()
					if err != nil || d != z || got.Malformed != "" || !got.Val().Equal(want) || got.Acc != 0 {
						h.ReportGridFail(t, "C12", h.Failf("value", "Parse(%q) at precision %d (the expansion of 5^%d has %d digits): err=%v, got %v (accuracy %v), want the exact value", lit, c.P, n, len(want.Digits), err, got.Val(), model.Acc(got.Acc)), mustJSON(c))
					}
					h.RecordGrid("C12", o, c)
					cnt++
				}
			}
		}
	}
	// one literal whose binary exponent exceeds 2^20 while the value is still representable: 5^7000 p(2^20+7024) is
	// 10^7000 x 2^1048600, 315 659 digits, into a receiver that holds them all (ToZero and ToPositiveInf: Exact)
	{
		const k, e = 7000, 1048600
		lit := new(big.Int).Exp(big.NewInt(5), big.NewInt(k), nil).String() + "p" + strconv.Itoa(e+k)
		want := model.FromInt(new(big.Int).Lsh(big.NewInt(1), e), k)
		for _, m := range []model.Mode{model.ToZero, model.ToPositiveInf} {
			z := mkRecv(uint(len(want.Digits))+40, uint8(m))
			d, _, err := z.Parse(lit, 10)
			got := h.Read(z)
			o := &h.Obs{}
			o.Label("grid:giant-binary-exponent")
			o.NonTrivial()
			c := C12Case{Kind: "grid-giant", Entry: "parse", S: "5^7000 p1055600", P: uint(len(want.Digits)) + 40, M: uint8(m)}
			if err != nil || d != z || got.Malformed != "" || !got.Val().Equal(want) || got.Acc != 0 {
				h.ReportGridFail(t, "C12", h.Failf("value", "Parse(<5^%d>p%d) at precision %d %v: err=%v, accuracy %v, %d digits; want the exact value 10^%d x 2^%d (%d digits)", k, e+k, c.P, m, err, model.Acc(got.Acc), len(got.Digits), k, e, len(want.Digits)), mustJSON(c))
			}
			h.RecordGrid("C12", o, c)
			cnt++
		}
	}
	h.AddExtra("C12", "tight_binary_exponent_cases", cnt)
}
