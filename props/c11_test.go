package props

import (
	"encoding/json"
	"fmt"
	"strings"
	"testing"

	"github.com/db47h/decimal"
	"pgregory.net/rapid"

	"verif/h"
	"verif/model"
)

// C11: text output parses back to exactly the same Decimal.

type C11Case struct {
	X    h.Spec `json:"x"`
	Fmt  string `json:"fmt"` // e E f g G p b text json
	Base int    `json:"base"`
	RM   uint8  `json:"rm"`    // receiver mode (any: the value must be exact)
	RP   uint   `json:"extra"` // extra receiver precision above MinPrec
}

func genC11(t *rapid.T) C11Case {
	c := C11Case{RM: h.GenMode(t, "rm")}
	c.Fmt = rapid.SampledFrom([]string{"e", "E", "f", "g", "G", "p", "b", "text", "json"}).Draw(t, "fmt")
	maxD := 3000
	if h.Thorough() {
		maxD = 20000
	}
	c.X = h.GenAny(t, "x", maxD)
	if h.Rare(t, "hugelit", 150) {
		// literals of ten thousand digits and more (block-wise scanning of long literals has its own thresholds)
		n := rapid.SampledFrom([]int{9728, 9747, 9800, 9822, 10000, 12000, 19456, 19500}).Draw(t, "hugen") + rapid.IntRange(-19, 19).Draw(t, "hugeoff")
		c.X = h.Spec{F: "f", D: h.GenDigitsN(t, "huged", n), Neg: rapid.Bool().Draw(t, "hugeneg"), M: h.GenMode(t, "hugem")}
		c.X.P = uint(len(c.X.D))
		if c.Fmt == "f" {
			c.X.E = int64(rapid.IntRange(-100, 100).Draw(t, "hugee"))
		} else {
			c.X.E = h.GenExp(t, "hugee2")
		}
		c.Fmt = rapid.SampledFrom([]string{"e", "g", "f", "p", "text", "json"}).Draw(t, "hugefmt")
		if c.Fmt == "f" {
			c.X.E = int64(rapid.IntRange(-100, 100).Draw(t, "hugee3"))
		}
	}
	if h.Rare(t, "gigalit", 25000) {
		// a few per run: 2^14 and 2^15 words and a little more (three to six hundred thousand digits), where a
		// conversion that splits its work by size would start to do so
		n := rapid.SampledFrom([]int{1 << 14, 1<<14 + 1, 1<<14 + 600, 1 << 15, 1<<15 + 3}).Draw(t, "gigan")*h.DW + rapid.IntRange(-19, 19).Draw(t, "gigaoff")
		c.X = h.Spec{F: "f", D: h.GenDigitsN(t, "gigad", n), Neg: rapid.Bool().Draw(t, "giganeg"), M: h.GenMode(t, "gigam"), E: int64(rapid.IntRange(-100, 100).Draw(t, "gigae"))}
		c.X.P = uint(len(c.X.D))
		c.Fmt = rapid.SampledFrom([]string{"e", "g", "f", "p", "text", "json", "b"}).Draw(t, "gigafmt")
		c.Base = rapid.SampledFrom([]int{0, 10}).Draw(t, "base")
		c.RP = uint(rapid.SampledFrom([]int{0, 0, 1, 19}).Draw(t, "rp"))
		return c
	}
	if c.X.F == "f" {
		if c.Fmt == "f" {
			c.X.E = h.GenExpModerate(t, "xe", 5000)
		}
		if c.Fmt == "b" {
			if lim := uint(len(c.X.D)) + 3000; c.X.P > lim {
				c.X.P = lim // 'b' prints Prec() digits
			}
		}
		if rapid.IntRange(0, 4).Draw(t, "tz") == 0 {
			// trailing zero words inside the precision, interior zero words come from the patterns
			if c.X.P < model.MaxPrec-100 {
				c.X.P += uint(rapid.IntRange(19, 60).Draw(t, "tzp"))
			}
		}
	}
	c.Base = rapid.SampledFrom([]int{0, 10}).Draw(t, "base")
	c.RP = uint(rapid.SampledFrom([]int{0, 0, 1, 19, 100}).Draw(t, "rp"))
	return c
}

// mkTwin builds the value of s a second time, without its history.
func mkTwin(s h.Spec) *decimal.Decimal { s.Hist = ""; return s.Build() }

func checkC11(c C11Case, o *h.Obs) *h.Fail {
	x := c.X.Build()
	xv := c.X.Val()
	o.Label("fmt:" + c.Fmt)
	if xv.Form != model.Finite {
		o.Label("special")
	} else if len(xv.Digits) > h.DW || strings.Contains(c.X.D, "0000000000000000000") || xv.Exp > model.MaxExp-60 || xv.Exp < model.MinExp+60 {
		o.NonTrivial()
	}
	var out string
	switch c.Fmt {
	case "text":
		b, err := x.MarshalText()
		if err != nil {
			return h.Failf("marshal", "MarshalText: %v", err)
		}
		out = string(b)
		// the bytes handed out are the caller's: writing into them and appending to them (append(b, '\n') is what a
		// caller writing lines does) must not show in any later result
		for i := range b {
			b[i] = '#'
		}
		b = append(b, "\n#"...)
		if b2, err := x.MarshalText(); err != nil || string(b2) != out {
			return h.Failf("marshal-shared", "MarshalText of %v after the caller overwrote and appended to the previous result: %q (err %v), first result %q", xv, h.FirstN(string(b2), 100), err, h.FirstN(out, 100))
		}
		if b3, err := mkTwin(c.X).MarshalText(); err != nil || string(b3) != out {
			return h.Failf("marshal-shared", "MarshalText of an equal value after the caller overwrote the previous result: %q, want %q", h.FirstN(string(b3), 100), h.FirstN(out, 100))
		}
	case "json":
		b, err := json.Marshal(x)
		if err != nil {
			return h.Failf("marshal", "json.Marshal: %v", err)
		}
		out = string(b)
	default:
		out = x.Text(c.Fmt[0], -1)
		if app := string(x.Append([]byte("ab"), c.Fmt[0], -1)); app != "ab"+out {
			return h.Failf("append", "Append differs from Text: %q vs %q", h.FirstN(app, 200), h.FirstN(out, 200))
		}
	}
	prec := uint(len(xv.Digits))
	if c.Fmt == "b" {
		prec = c.X.P
	}
	if prec == 0 {
		prec = 1
	}
	prec += c.RP
	z := new(decimal.Decimal).SetMode(decimal.RoundingMode(c.RM)).SetPrec(prec)
	// dirty the receiver a little: it held a value before
	z.SetInt64(-77)
	switch c.Fmt {
	case "text":
		if err := z.UnmarshalText([]byte(out)); err != nil {
			return h.Failf("parse", "UnmarshalText(%q): %v", h.FirstN(out, 200), err)
		}
	case "json":
		if err := json.Unmarshal([]byte(out), z); err != nil {
			return h.Failf("parse", "json.Unmarshal(%s): %v", h.FirstN(out, 200), err)
		}
	default:
		d, _, err := z.Parse(out, c.Base)
		if err != nil || d != z {
			return h.Failf("parse", "Parse(%q, %d): %v", h.FirstN(out, 200), c.Base, err)
		}
	}
	got := h.Read(z)
	if got.Malformed != "" {
		return h.Failf("malformed", "%v", got)
	}
	// parsing the same text again into the same receiver (which now owns a buffer of the right size) gives the same value
	if c.Fmt != "text" && c.Fmt != "json" {
		if d, _, err := z.Parse(out, c.Base); err != nil || d != z {
			return h.Failf("parse", "second Parse into the same receiver: %v", err)
		}
		if again := h.Read(z); !again.SameButWords(got) {
			return h.Failf("reparse", "format %s: parsing %q twice into the same receiver gives %v, then %v", c.Fmt, h.FirstN(out, 200), got.Val(), again.Val())
		}
	} else if c.Fmt == "text" {
		if err := z.UnmarshalText([]byte(out)); err != nil {
			return h.Failf("parse", "second UnmarshalText into the same receiver: %v", err)
		}
		if again := h.Read(z); !again.SameButWords(got) {
			return h.Failf("reparse", "UnmarshalText of %q twice into the same receiver gives %v, then %v", h.FirstN(out, 200), got.Val(), again.Val())
		}
	}
	if !got.Val().Equal(xv) {
		return h.Failf("roundtrip", "format %s: %v printed as %q parsed back as %v", c.Fmt, xv, h.FirstN(out, 300), got.Val())
	}
	// the same text through fmt.Sscan (the Scan method reads from a rune scanner that cannot tell its length in
	// advance) into a fresh receiver of the same precision; Scan is documented not to handle infinities
	if xv.Form != model.Inf && c.Fmt != "json" && c.Fmt != "text" && (len(out)+int(c.RM))%2 == 0 {
		zs := new(decimal.Decimal).SetMode(decimal.RoundingMode(c.RM)).SetPrec(prec)
		if _, err := fmt.Sscan(out, zs); err != nil {
			return h.Failf("parse", "fmt.Sscan(%q): %v", h.FirstN(out, 200), err)
		}
		if gs := h.Read(zs); gs.Malformed != "" || !gs.Val().Equal(xv) || gs.Acc != 0 {
			return h.Failf("roundtrip", "format %s: %v printed as %q comes back from fmt.Sscan as %v (accuracy %v)", c.Fmt, xv, h.FirstN(out, 300), gs.Val(), model.Acc(gs.Acc))
		}
	}
	if got.Acc != 0 {
		return h.Failf("acc", "format %s: parsing %q back into precision %d reports %v", c.Fmt, h.FirstN(out, 200), prec, model.Acc(got.Acc))
	}
	// digit-count clause: with precision -1 the output carries exactly MinPrec significant digits, x's own
	if xv.Form == model.Finite && c.Fmt != "b" {
		s := strings.Trim(out, `"`)
		s = strings.TrimLeft(s, "+-")
		if i := strings.IndexAny(s, "eE"); i >= 0 {
			s = s[:i]
		}
		s = strings.Replace(s, ".", "", 1)
		s = strings.TrimLeft(s, "0")
		s = strings.TrimRight(s, "0")
		if s != xv.Digits {
			return h.Failf("digits", "format %s of %v: significand digits %q, x has %q (MinPrec %d)", c.Fmt, xv, h.FirstN(s, 200), h.FirstN(xv.Digits, 200), len(xv.Digits))
		}
		if mp := x.MinPrec(); mp != uint(len(xv.Digits)) {
			return h.Failf("minprec", "MinPrec %d, digits %d", mp, len(xv.Digits))
		}
	}
	return nil
}

const ruleC11 = "rapid-generated Decimals (clean and dirty zeros/infinities, 1..3000 (quick) / 20000 (thorough) digits, word patterns with interior and trailing zero words, extra precision so that whole low words are zero, about one case in 150 with 9700..19500 digits, exponents over the whole int32 range for e/E/g/G/p/b/MarshalText/JSON and |exp| <= 5000 for f) x format x parse base {0,10} x receiver mode x receiver precision MinPrec..MinPrec+100. Oracle: round trip (form, sign, digits, exponent identical, Acc()==Exact, Append==Text, a second parse of the same text into the same, now roomy, receiver gives the same value) and the digit-count clause (significand characters without layout zeros == x's MinPrec digits). About one case in 25000 (a handful per run) is a value of 2^14 or 2^15 words and a little more (311 000 .. 623 000 digits) printed and parsed back in every format. Half of the texts are also read back through fmt.Sscan (a reader without a known length) into a fresh receiver. Non-trivial = finite with more than one word, or containing a zero word, or exponent within 60 of a range end."

var propC11 = &h.Prop[C11Case]{ID: "C11", Rule: ruleC11, Gen: genC11, Check: checkC11, Matchers: map[string]func(C11Case) bool{}}

func TestC11(t *testing.T)       { propC11.Search(t) }
func TestC11Replay(t *testing.T) { propC11.Replay(t) }

// TestC11Grid: one value of 2^16+5 words (1.245 million digits; its text exceeds 1 MiB) printed and parsed
// back, on every run; in the thorough tier also 2^17+1 words and the f and p formats. Sizes at which a conversion
// that works in blocks, in parallel, or with a length limit would first behave differently.
func TestC11Grid(t *testing.T) {
	defer h.WriteStats("C11")
	type g struct {
		words int
		fmt   string
	}
	cases := []g{{1<<16 + 5, "e"}}
	if h.Thorough() {
		cases = append(cases, g{1<<16 + 5, "f"}, g{1<<17 + 1, "p"}, g{1 << 16, "text"})
	}
	st := uint64(12345)
	next := func() uint64 {
		st += 0x9e3779b97f4a7c15
		z := st
		z = (z ^ (z >> 30)) * 0xbf58476d1ce4e5b9
		z = (z ^ (z >> 27)) * 0x94d049bb133111eb
		return z ^ (z >> 31)
	}
	n := 0
	for _, gc := range cases {
		var b strings.Builder
		for i := 0; i < gc.words; i++ {
			w := next() % h.Base
			if i == 0 && w < h.Base/10 {
				w += h.Base / 10
			}
			if i%97 == 3 || i >= 65535 && i <= 65537 || i >= 131071 && i <= 131073 {
				w = 0 // interior zero words (also around word 2^16 and 2^17 from the top: readers that work in blocks)
			}
			fmt.Fprintf(&b, "%019d", w)
		}
		d := strings.TrimRight(b.String(), "0")
		c := C11Case{X: h.Spec{F: "f", D: d, E: 17, Neg: n%2 == 1, P: uint(len(d)), M: 0}, Fmt: gc.fmt, Base: 10, RM: 2}
		o := &h.Obs{}
		o.Label("giant")
		if f := propC11.SafeCheck(c, o); f != nil {
			h.ReportGridFail(t, "C11", f, mustJSON(struct {
				Words int
				Fmt   string
			}{gc.words, gc.fmt}))
		}
		h.RecordGrid("C11", o, struct {
			Words int
			Fmt   string
		}{gc.words, gc.fmt})
		n++
	}
	h.AddExtra("C11", "giant_cases_enumerated", n)
	// texts whose digit count is a round number of words (a power of two, or a multiple of 2048) plus 0, 7 or 18
	// digits: a reader that collects digits or words in blocks has its boundaries there
	m := 0
	for _, words := range []int{64, 128, 256, 512, 1024, 2048, 4096, 6144, 8192} {
		for _, extra := range []int{0, 7, 18} {
			var b strings.Builder
			for b.Len() < 19*words+extra {
				fmt.Fprintf(&b, "%019d", next()%h.Base)
			}
			d := []byte(b.String()[:19*words+extra])
			if d[0] == '0' {
				d[0] = '7'
			}
			if d[len(d)-1] == '0' {
				d[len(d)-1] = '3'
			}
			for _, f := range []string{"e", "text"} {
				c := C11Case{X: h.Spec{F: "f", D: string(d), E: int64(m%7) - 3, Neg: m%2 == 1, P: uint(len(d)), M: 0}, Fmt: f, Base: 10, RM: uint8(m % 6)}
				o := &h.Obs{}
				o.Label("block-sized-text")
				if fl := propC11.SafeCheck(c, o); fl != nil {
					h.ReportGridFail(t, "C11", fl, mustJSON(struct {
						Digits int
						Fmt    string
					}{len(d), f}))
				}
				h.RecordGrid("C11", o, struct {
					Digits int
					Fmt    string
				}{len(d), f})
				m++
			}
		}
	}
	h.AddExtra("C11", "block_sized_texts_enumerated", m)
}
