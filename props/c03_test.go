package props

import (
	"encoding/json"
	"fmt"
	"math"
	"math/big"
	"runtime/debug"
	"strconv"
	"strings"
	"testing"

	"github.com/db47h/decimal"
	"pgregory.net/rapid"

	"verif/h"
	"verif/model"
)

// C03: FMA computes x*y+u with a single rounding, IEEE zero-sum sign rule,
// same result when the receiver is also x, y or u.

type C03Case struct {
	X     h.Spec `json:"x"`
	Y     h.Spec `json:"y"`
	U     h.Spec `json:"u"`
	P     uint   `json:"p"`
	M     uint8  `json:"m"`
	Alias string `json:"alias,omitempty"` // which operand the receiver is: "", "x", "y", "u", "xy" (x and y are one variable), "xyz" ...
	// Zone: the case lies inside the input zone of the known finding F-03c (exact product exponent outside the
	// range, non-zero addend) and is checked against the weaker two-outcome oracle instead of being excluded.
	Zone bool `json:"zone,omitempty"`
}

// genUrel places u relative to the exact product p.
func genFMA(t *rapid.T, specials bool) C03Case {
	c := C03Case{M: h.GenMode(t, "zmode")}
	fresh := func(s h.Spec) h.Spec { s.Hist = ""; return s }
	maxD := 300
	if h.Thorough() {
		maxD = 4000
	}
	shape := rapid.IntRange(0, 11).Draw(t, "shape")
	mk := func(v model.Val, label string) h.Spec {
		return h.SpecOf(v, h.GenPrecFor(t, label+"p", len(v.Digits)), h.GenMode(t, label+"m"))
	}
	inRange := func(v model.Val) bool {
		return v.Form != model.Finite || v.Exp <= model.MaxExp && v.Exp >= model.MinExp
	}
	if h.Rare(t, "wordsum", 30) {
		// three integers, each in one mantissa word, whose exact x*y + u lies at or next to 2^64, 2^63, 10^19 or
		// 2*10^19 - places where a shortcut through machine integers wraps although no operand is special
		target := new(big.Int)
		switch rapid.IntRange(0, 4).Draw(t, "ws.t") {
		case 0, 1:
			target.Lsh(big.NewInt(1), 64)
		case 2:
			target.Lsh(big.NewInt(1), 63)
		case 3:
			target.SetString("10000000000000000000", 10)
		default:
			target.SetString("19999999999999999998", 10)
		}
		target.Add(target, big.NewInt(int64(rapid.IntRange(-3, 3).Draw(t, "ws.d"))))
		if rapid.IntRange(0, 3).Draw(t, "ws.above") == 0 {
			target.Add(target, new(big.Int).SetUint64(rapid.Uint64Range(0, 1<<60).Draw(t, "ws.more")))
		}
		yv := int64(rapid.SampledFrom([]int{1, 1, 2, 3, 5, 7, 10, 1000}).Draw(t, "ws.y"))
		// x*y just below 10^19, or anywhere: u = target - x*y must be a positive one-word integer
		limit := new(big.Int).Quo(new(big.Int).SetUint64(h.Base-1), big.NewInt(yv))
		lowest := new(big.Int).Sub(target, new(big.Int).SetUint64(h.Base-1))
		lowest.Quo(lowest, big.NewInt(yv))
		lowest.Add(lowest, big.NewInt(1))
		if lowest.Sign() < 0 {
			lowest.SetInt64(1)
		}
		if lowest.Cmp(limit) > 0 {
			lowest.Set(limit)
		}
		span := new(big.Int).Sub(limit, lowest)
		xvI := new(big.Int).Add(lowest, new(big.Int).SetUint64(rapid.Uint64Range(0, span.Uint64()).Draw(t, "ws.x")))
		uI := new(big.Int).Sub(target, new(big.Int).Mul(xvI, big.NewInt(yv)))
		if uI.Sign() <= 0 || uI.Cmp(new(big.Int).SetUint64(h.Base)) >= 0 || xvI.Sign() <= 0 {
			uI.SetUint64(9500000000000000000)
			xvI.SetInt64(9000000000000000000)
			yv = 1
		}
		neg := rapid.Bool().Draw(t, "ws.neg")
		xv, yvv, uv := model.FromInt(xvI, 0), model.FromInt(big.NewInt(yv), 0), model.FromInt(uI, 0)
		xv.Neg, uv.Neg = neg, neg
		if rapid.Bool().Draw(t, "ws.flip") {
			xv.Neg, yvv.Neg = !xv.Neg, true
		}
		c.X, c.Y, c.U = mk(xv, "ws.x"), mk(yvv, "ws.y"), mk(uv, "ws.u")
		c.P = uint(rapid.SampledFrom([]int{1, 5, 19, 20, 21, 34, 38, 40}).Draw(t, "ws.p"))
		return c
	}
	if h.Rare(t, "tinyproduct", 25) {
		// u carries a rounding pattern at the receiver's precision (a power of ten, a tie, all nines ...) and the
		// product of two long operands (1..45 words each) lies entirely below u's last digit, by 0..60 digits or far:
		// it only decides direction and accuracy - and, when it has the opposite sign, turns a power of ten into
		// 0.99..9 at every precision, word-aligned or not
		p := rapid.IntRange(1, 120).Draw(t, "tp.p")
		if rapid.Bool().Draw(t, "tp.edge") {
			p = 19*rapid.IntRange(1, 6).Draw(t, "tp.pw") + rapid.IntRange(-1, 1).Draw(t, "tp.poff")
		}
		ud := h.GenRoundDigits(t, "tp.u", p)
		if rapid.IntRange(0, 2).Draw(t, "tp.pow10") == 0 {
			ud = "1"
		}
		ue := int64(rapid.IntRange(-40, 40).Draw(t, "tp.ue"))
		uv := model.MkFinite(rapid.Bool().Draw(t, "tp.uneg"), ud, ue)
		wx, wy := rapid.IntRange(1, 45).Draw(t, "tp.wx"), rapid.IntRange(1, 45).Draw(t, "tp.wy")
		if rapid.Bool().Draw(t, "tp.long") {
			wx, wy = rapid.IntRange(28, 45).Draw(t, "tp.wx2"), rapid.IntRange(28, 45).Draw(t, "tp.wy2")
		}
		xd, yd := h.GenDigitsN(t, "tp.x", 19*wx-rapid.IntRange(0, 18).Draw(t, "tp.xo")), h.GenDigitsN(t, "tp.y", 19*wy-rapid.IntRange(0, 18).Draw(t, "tp.yo"))
		gap := int64(rapid.IntRange(0, 60).Draw(t, "tp.gap"))
		if rapid.IntRange(0, 5).Draw(t, "tp.fargap") == 0 {
			gap = int64(rapid.IntRange(60, 5000).Draw(t, "tp.gap2"))
		}
		// |x*y| < 10^(xe+ye): put that at or below u's last digit (or the receiver's, whichever is lower)
		low := ue - int64(max(len(ud), p))
		xe := int64(rapid.IntRange(-30, 30).Draw(t, "tp.xe"))
		xv := model.MkFinite(rapid.Bool().Draw(t, "tp.xneg"), xd, xe)
		yv := model.MkFinite(rapid.Bool().Draw(t, "tp.yneg"), yd, low-gap-xe)
		c.X, c.Y, c.U = mk(xv, "tp.x"), mk(yv, "tp.y"), mk(uv, "tp.u")
		c.P = uint(p)
		return c
	}
	if rapid.IntRange(0, 7).Draw(t, "boundary") == 0 {
		// a product with few significant digits (often an exact power of ten) and an addend placed around the
		// receiver's last digit position, mostly of the opposite sign: the sum then crosses a decade downwards and the
		// rounding boundary moves inside what looked like a negligible addend
		i := rapid.IntRange(0, 25).Draw(t, "b.i")
		xv := model.MkFinite(rapid.Bool().Draw(t, "b.xneg"), new(big.Int).Exp(big.NewInt(2), big.NewInt(int64(i)), nil).String(), 0)
		yv := model.MkFinite(rapid.Bool().Draw(t, "b.yneg"), new(big.Int).Exp(big.NewInt(5), big.NewInt(int64(i)), nil).String(), 0)
		if rapid.IntRange(0, 2).Draw(t, "b.short") == 0 {
			xv = model.MkFinite(xv.Neg, h.GenDigitsN(t, "b.xd", rapid.IntRange(1, 3).Draw(t, "b.xn")), 0)
			yv = model.MkFinite(yv.Neg, h.GenDigitsN(t, "b.yd", rapid.IntRange(1, 3).Draw(t, "b.yn")), 0)
		}
		xv.Exp += int64(rapid.IntRange(-40, 40).Draw(t, "b.xe"))
		yv.Exp += int64(rapid.IntRange(-40, 40).Draw(t, "b.ye"))
		prod := model.MulX(xv, yv).Val
		p := rapid.SampledFrom([]int{1, 2, 5, 18, 19, 20, 37, 38, 39, 57, 76}).Draw(t, "b.p")
		if rapid.Bool().Draw(t, "b.prand") {
			p = rapid.IntRange(1, 80).Draw(t, "b.p2")
		}
		ud := rapid.SampledFrom([]string{"5", "7", "51", "49", "9", "1", "4999999", "5000001", "99"}).Draw(t, "b.ud")
		if rapid.Bool().Draw(t, "b.udrand") {
			ud = h.GenDigits(t, "b.udg", 25)
		}
		uv := model.MkFinite(prod.Neg != (rapid.IntRange(0, 3).Draw(t, "b.opp") > 0), ud, prod.Exp-int64(p)+int64(rapid.IntRange(-2, 2).Draw(t, "b.off")))
		c.X, c.Y, c.U = mk(xv, "x"), mk(yv, "y"), mk(uv, "u")
		if rapid.Bool().Draw(t, "b.tightprec") {
			// operands stored at exactly one or two words
			c.X.P, c.Y.P = uint(19*((len(c.X.D)+18)/19)), uint(19*((len(c.Y.D)+18)/19))
		}
		c.P = uint(p)
		c.Alias = rapid.SampledFrom([]string{"", "", "u", "x"}).Draw(t, "alias")
		return c
	}
	if rapid.IntRange(0, 15).Draw(t, "rangeend") == 0 {
		// the exact product's exponent outside, or within a few units of, the ends of the exponent range; the addend
		// is a zero (either sign: FMA is then Mul, the IEEE sign rule applies to exact zero products only), an
		// infinity, or a finite value at the same end of the range (the sum may come back into range) or anywhere
		xd, yd := h.GenDigits(t, "re.xd", 25), h.GenDigits(t, "re.yd", 25)
		if rapid.IntRange(0, 3).Draw(t, "re.pow10") == 0 {
			// a product that is exactly a power of ten (10^MaxExp less a hair is in range, 10^MaxExp is not; 10^(MinExp-1)
			// is the smallest magnitude there is)
			pr := rapid.SampledFrom([][2]string{{"1", "1"}, {"2", "5"}, {"5", "2"}, {"4", "25"}, {"25", "4"}, {"8", "125"}, {"125", "8"}, {"16", "625"}, {"5", "2"}, {"2", "5"}}).Draw(t, "re.pw")
			xd, yd = pr[0], pr[1]
		}
		var target int64 // exponent of x*y up to the normalisation digit
		if rapid.Bool().Draw(t, "re.low") {
			target = model.MinExp + int64(rapid.IntRange(-40, 3).Draw(t, "re.off"))
			if rapid.IntRange(0, 3).Draw(t, "re.far") == 0 {
				target = model.MinExp - int64(rapid.IntRange(0, 1<<31).Draw(t, "re.offfar"))
			}
		} else {
			target = model.MaxExp + int64(rapid.IntRange(-3, 40).Draw(t, "re.off"))
			if rapid.IntRange(0, 3).Draw(t, "re.far") == 0 {
				target = model.MaxExp + int64(rapid.IntRange(0, 1<<31).Draw(t, "re.offfar"))
			}
		}
		xe := clampExp(target/2 + int64(rapid.IntRange(-1000, 1000).Draw(t, "re.split")))
		if rapid.IntRange(0, 3).Draw(t, "re.lopsided") == 0 {
			xe = clampExp(int64(rapid.IntRange(-100, 100).Draw(t, "re.xe")))
		}
		ye := clampExp(target - xe)
		xv := model.MkFinite(rapid.Bool().Draw(t, "re.xneg"), xd, xe)
		yv := model.MkFinite(rapid.Bool().Draw(t, "re.yneg"), yd, ye)
		prod := model.MulX(xv, yv).Val
		c.X, c.Y = mk(xv, "x"), mk(yv, "y")
		c.P = uint(rapid.IntRange(1, 60).Draw(t, "re.p"))
		ukind := rapid.IntRange(0, 5).Draw(t, "re.u")
		if !specials && ukind < 3 {
			ukind += 3
		}
		switch ukind {
		case 0, 1:
			c.U = h.GenSpecial(t, "u", "z")
			if rapid.Bool().Draw(t, "re.uopp") {
				c.U.Neg = !prod.Neg
			}
		case 2:
			c.U = h.GenSpecial(t, "u", "i")
		case 3:
			// same end of the range, comparable magnitude, mostly the opposite sign
			ue := clampExp(prod.Exp + int64(rapid.IntRange(-3, 3).Draw(t, "re.ue")))
			c.U = mk(model.MkFinite(prod.Neg != (rapid.IntRange(0, 3).Draw(t, "re.usame") > 0), h.GenDigits(t, "re.ud", 30), ue), "u")
		default:
			c.U = fresh(h.GenFinite(t, "u", 40))
			if prod.Exp <= model.MaxExp && prod.Exp >= model.MinExp {
				// an in-range product is really aligned with the addend: keep them within gapLimit digits
				c.U.E = clampExp(prod.Exp + int64(rapid.IntRange(-int(gapLimit()), int(gapLimit())).Draw(t, "re.ugap")))
			} else {
				// A product beyond the range is aligned with the addend as well (the library adds with both exponents
				// shifted), at the cost of their distance in digits: keep the addend within gapLimit digits of the
				// product when the product is that close to the range, and otherwise at least 2^32-1 digits away from it
				// (on the underflow side only a sticky bit remains of the product then; on the overflow side the addend
				// cannot bring the sum back).
				beyond := prod.Exp - model.MaxExp
				if prod.Exp < model.MinExp {
					beyond = model.MinExp - prod.Exp
				}
				// (far enough always exists inside the range: u.exp <= e - 2^32 on the overflow side, u.exp >= e + 2^32 - 1 on
				// the underflow side, where e is the product's exponent, at least one beyond the end)
				// (r = 0 on the underflow side is the razor case in which the product's leading digit is 2^32-1 digits
				// below u's: the library then really aligns 2^32 digits, 2 GB and 10 s a case: enumerated in the thorough tier of
				// TestC03Grid instead)
				r := int64(rapid.IntRange(1, 60).Draw(t, "re.ufar"))
				far := prod.Exp - 1<<32 - r
				if far < model.MinExp {
					far = model.MinExp
				}
				if prod.Exp < model.MinExp {
					far = prod.Exp + 1<<32 - 1 + r
					if far > model.MaxExp {
						far = model.MaxExp
					}
				}
				if beyond <= gapLimit() && rapid.IntRange(0, 2).Draw(t, "re.unear") > 0 {
					c.U.E = clampExp(prod.Exp + int64(rapid.IntRange(-int(gapLimit()), int(gapLimit())).Draw(t, "re.ugap2")))
				} else {
					c.U.E = far
				}
			}
		}
		c.Alias = rapid.SampledFrom([]string{"", "", "", "x", "u", "y"}).Draw(t, "alias")
		return c
	}
	if rapid.IntRange(0, 9).Draw(t, "fromadd") == 0 {
		// the whole corpus of sum and difference cases (decade crossings, ties made by the small addend, far addends,
		// near-total cancellation, range ends) replayed through FMA: x*y is the first addend exactly (y a power of
		// ten, or a small factor split off a multiple), u the second one
		a := genC01op(t, rapid.SampledFrom([]string{"add", "sub"}).Draw(t, "fa.op"))
		if a.X.F == "f" && a.Y.F == "f" {
			j := int64(rapid.IntRange(-20, 20).Draw(t, "fa.j"))
			xs, ys := a.X, h.Spec{F: "f", D: "1", E: j + 1, P: uint(1 + rapid.IntRange(0, 20).Draw(t, "fa.yp")), M: h.GenMode(t, "fa.ym")}
			xs.E = clampExp(a.X.E - j)
			if xs.E+j == a.X.E {
				us := a.Y
				if a.Op == "sub" {
					us.Neg = !us.Neg
				}
				xs.Hist, us.Hist = "", ""
				c.X, c.Y, c.U, c.P = xs, ys, us, a.P
				if rapid.Bool().Draw(t, "fa.swap") {
					c.X, c.Y = c.Y, c.X
				}
				c.Alias = rapid.SampledFrom([]string{"", "", "", "u", "x"}).Draw(t, "alias")
				return c
			}
		}
	}
	if rapid.IntRange(0, 9).Draw(t, "chosensum") == 0 {
		// the exact sum is chosen first - a rounding pattern S at the receiver's precision (tie, just above / below a
		// tie, all nines, exact) - and u := S - x*y, with a multi-word product placed around or (far) below the rounding
		// position: u is then as long as the product, with the run of nines or zeros that S - x*y leaves, and whether
		// the result is S rounded depends on every digit of the product having been used
		p := rapid.IntRange(1, 60).Draw(t, "cs.p")
		S := model.MkFinite(rapid.Bool().Draw(t, "cs.neg"), h.GenRoundDigits(t, "cs.s", p), int64(rapid.IntRange(-40, 40).Draw(t, "cs.e")))
		xd := h.GenDigitsN(t, "cs.x", rapid.IntRange(1, 120).Draw(t, "cs.xn"))
		yd := h.GenDigitsN(t, "cs.y", rapid.IntRange(1, 120).Draw(t, "cs.yn"))
		// top of the product relative to the rounding position of S (S.Exp - p): from 3 digits above to 80 below
		top := S.Exp - int64(p) + int64(rapid.IntRange(-80, 3).Draw(t, "cs.top"))
		xe := int64(rapid.IntRange(-30, 30).Draw(t, "cs.xe"))
		xv := model.MkFinite(rapid.Bool().Draw(t, "cs.xneg"), xd, xe)
		yv := model.MkFinite(rapid.Bool().Draw(t, "cs.yneg"), yd, top-xe)
		prod := model.MulX(xv, yv).Val
		uv := model.AddX(S, prod.Negate()).Val
		if uv.Form == model.Finite {
			c.X, c.Y, c.U = mk(xv, "x"), mk(yv, "y"), mk(uv, "u")
			c.P = uint(p)
			if rapid.IntRange(0, 3).Draw(t, "cs.pshort") == 0 {
				c.P = uint(rapid.IntRange(1, p).Draw(t, "cs.p2"))
			}
			c.Alias = rapid.SampledFrom([]string{"", "", "", "x", "y"}).Draw(t, "alias")
			return c
		}
	}
	if rapid.IntRange(0, 11).Draw(t, "sparse") == 0 {
		// decade-crossing cancellation: the product reads 1 000...0 d 000...0 d (several words, mostly zeros) and the
		// addend is -(999...9) one exponent below: the result's leading digits come from deep inside the product
		gap := func(l string) string {
			return strings.Repeat("0", rapid.SampledFrom([]int{0, 1, 5, 17, 18, 19, 20, 36, 37, 38, 40, 56, 57, 75}).Draw(t, l))
		}
		dg := func(l string) string { return string(byte('1' + rapid.IntRange(0, 8).Draw(t, l))) }
		xd := "1" + gap("s.g1") + dg("s.d1") + gap("s.g2") + dg("s.d2")
		if rapid.Bool().Draw(t, "s.more") {
			xd += gap("s.g3") + h.GenDigits(t, "s.tail", 30)
		}
		xv := model.MkFinite(rapid.Bool().Draw(t, "s.xneg"), xd, int64(rapid.IntRange(-60, 120).Draw(t, "s.xe")))
		yv := model.MkFinite(rapid.Bool().Draw(t, "s.yneg"), rapid.SampledFrom([]string{"1", "1", "1", "10", "1000000000000000000000"}).Draw(t, "s.y"), int64(rapid.IntRange(-5, 5).Draw(t, "s.ye")))
		prod := model.MulX(xv, yv).Val
		m := rapid.SampledFrom([]int{1, 2, 18, 19, 20, 36, 37, 38, 39, 57}).Draw(t, "s.m")
		uv := model.MkFinite(!prod.Neg, strings.Repeat("9", m), prod.Exp-1)
		if rapid.IntRange(0, 4).Draw(t, "s.same") == 0 {
			uv.Exp = prod.Exp
		}
		if rapid.IntRange(0, 2).Draw(t, "s.top") == 0 {
			// the addend cancels the leading part of the (sparse) product exactly - a short addend - and what is left
			// is the product's low part, dozens of zeros further down
			k := rapid.IntRange(1, len(prod.Digits)).Draw(t, "s.topk")
			if top := strings.TrimRight(prod.Digits[:k], "0"); top != "" {
				uv = model.MkFinite(!prod.Neg, top, prod.Exp)
			}
		}
		c.X, c.Y, c.U = mk(xv, "x"), mk(yv, "y"), mk(uv, "u")
		c.P = uint(rapid.SampledFrom([]int{1, 2, 18, 19, 20, 37, 38, 39, 57}).Draw(t, "s.p"))
		if rapid.Bool().Draw(t, "s.prand") {
			c.P = uint(rapid.IntRange(1, 90).Draw(t, "s.p2"))
		}
		c.Alias = rapid.SampledFrom([]string{"", "", "u", "x"}).Draw(t, "alias")
		return c
	}
	switch {
	case shape == 0:
		// small scope: dense in ties and cancellations
		d := func(l string) h.Spec {
			return h.Spec{F: "f", D: h.GenDigitsN(t, l, rapid.IntRange(1, 3).Draw(t, l+"n")), E: int64(rapid.IntRange(-4, 4).Draw(t, l+"e")), Neg: rapid.Bool().Draw(t, l+"neg"), P: 3, M: h.GenMode(t, l+"m")}
		}
		c.X, c.Y, c.U = d("x"), d("y"), d("u")
		c.P = uint(rapid.IntRange(1, 4).Draw(t, "p"))
	case shape <= 3:
		// massive cancellation: u = -(x*y) + delta
		c.X = fresh(h.GenFinite(t, "x", maxD/2))
		c.Y = fresh(h.GenFinite(t, "y", maxD/2))
		if s := c.X.E + c.Y.E; s > model.MaxExp-50 || s < model.MinExp+50 {
			c.Y.E = int64(rapid.IntRange(-100, 100).Draw(t, "ye2")) - c.X.E/2
			c.X.E = c.X.E / 2
		}
		p := model.MulX(c.X.Val(), c.Y.Val()).Val
		u := p.Negate()
		if rapid.IntRange(0, 5).Draw(t, "delta") > 0 {
			off := int64(rapid.IntRange(-40, 5).Draw(t, "doff"))
			if rapid.Bool().Draw(t, "dhigh") {
				off = -int64(rapid.IntRange(0, len(p.Digits)).Draw(t, "doff2"))
			}
			delta := model.MkFinite(rapid.Bool().Draw(t, "dneg"), h.GenDigits(t, "delta", 8), p.Exp+off)
			u = model.AddX(u, delta).Val
		}
		if u.Form != model.Finite || !inRange(u) {
			u = p
		}
		c.U = mk(u, "u")
		c.P = h.GenResultPrec(t, "p", 20, 0)
	case shape <= 5:
		// single vs double rounding: product with a rounding pattern at p, u one unit far below
		p := rapid.IntRange(1, 40).Draw(t, "p")
		// product = q with pattern; x*y = q: take y small, x = q/y is not exact in general, so
		// build x := pattern digits, y := 10^k or a small factor with x*y keeping the pattern: y in {1,2,4,5,8}*10^k
		pat := h.GenRoundDigits(t, "pat", p)
		f := rapid.SampledFrom([]string{"1", "2", "4", "5", "8", "25", "125"}).Draw(t, "factor")
		// x = pat / f must be exact: multiply pat by the cofactor instead: x = pat * cof, y = f => x*y = pat*cof*f = pat*10^j
		cof := map[string]string{"1": "1", "2": "5", "4": "25", "5": "2", "8": "125", "25": "4", "125": "8"}[f]
		x := model.MulX(model.MkFinite(rapid.Bool().Draw(t, "xneg"), pat, int64(rapid.IntRange(-30, 30).Draw(t, "xe"))), model.MkFinite(false, cof, 0)).Val
		y := model.MkFinite(rapid.Bool().Draw(t, "yneg"), f, int64(rapid.IntRange(-30, 30).Draw(t, "ye")))
		prod := model.MulX(x, y).Val
		u := model.MkFinite(rapid.Bool().Draw(t, "uneg"), h.GenDigits(t, "u", 3), prod.Exp-int64(len(prod.Digits))-int64(rapid.IntRange(0, 60).Draw(t, "uoff")))
		c.X, c.Y, c.U = mk(x, "x"), mk(y, "y"), mk(u, "u")
		c.P = uint(p)
	case shape == 6 && specials:
		// special operand classes
		cls := func(l string) h.Spec {
			switch rapid.IntRange(0, 3).Draw(t, l+"cls") {
			case 0:
				return h.GenSpecial(t, l, "z")
			case 1:
				return h.GenSpecial(t, l, "i")
			}
			return fresh(h.GenFinite(t, l, 40))
		}
		c.X, c.Y, c.U = cls("x"), cls("y"), cls("u")
		if c.X.F == "f" && c.Y.F == "f" {
			if s := c.X.E + c.Y.E; s > model.MaxExp-50 || s < model.MinExp+50 {
				c.Y.E = -c.X.E / 2
				c.X.E = c.X.E / 2
			}
			if c.U.F == "f" {
				c.U.E = clampExp(c.X.E + c.Y.E + int64(rapid.IntRange(-60, 60).Draw(t, "urel")))
			}
		}
		c.P = h.GenResultPrec(t, "p", 20, 0)
	case shape == 7:
		// product exponent close to a range end (the sum may or may not be representable)
		c.X = fresh(h.GenFinite(t, "x", 60))
		yd := h.GenDigits(t, "y", 60)
		target := int64(model.MaxExp)
		if rapid.Bool().Draw(t, "low") {
			target = model.MinExp
		}
		ye := target - c.X.E + int64(rapid.IntRange(-30, 30).Draw(t, "edge"))
		if ye > model.MaxExp || ye < model.MinExp {
			c.X.E = int64(rapid.IntRange(-1000, 1000).Draw(t, "xe2"))
			ye = clampExp(target - c.X.E + int64(rapid.IntRange(-30, 30).Draw(t, "edge2")))
		}
		c.Y = h.Spec{F: "f", D: yd, E: ye, Neg: rapid.Bool().Draw(t, "yneg"), P: h.GenPrecFor(t, "yp", len(yd)), M: h.GenMode(t, "ym")}
		ud := h.GenDigits(t, "u", 60)
		c.U = h.Spec{F: "f", D: ud, E: clampExp(target + int64(rapid.IntRange(-30, 30).Draw(t, "uedge"))), Neg: rapid.Bool().Draw(t, "uneg"), P: h.GenPrecFor(t, "up", len(ud)), M: h.GenMode(t, "um")}
		c.P = h.GenResultPrec(t, "p", 30, 0)
	default:
		c.X = fresh(h.GenFinite(t, "x", maxD))
		c.Y = fresh(h.GenFinite(t, "y", maxD))
		if s := c.X.E + c.Y.E; s > model.MaxExp-50 || s < model.MinExp+50 {
			c.Y.E = int64(rapid.IntRange(-100, 100).Draw(t, "ye2")) - c.X.E/2
			c.X.E = c.X.E / 2
		}
		ud := h.GenDigits(t, "u", maxD)
		c.P = h.GenResultPrec(t, "p", len(c.X.D)+len(c.Y.D), 0)
		if shape == 11 {
			c.P = h.GenPrecFor(t, "pbig", 1)
		}
		prodLike := h.Spec{F: "f", D: c.X.D + c.Y.D, E: c.X.E + c.Y.E}
		c.U = h.Spec{F: "f", D: ud, Neg: rapid.Bool().Draw(t, "uneg"), M: h.GenMode(t, "um"), P: h.GenPrecFor(t, "up", len(ud))}
		c.U.E = genRelExp(t, prodLike, len(ud), c.P)
	}
	c.Alias = rapid.SampledFrom([]string{"", "", "", "x", "y", "u", "xy", "xyz", "xu", "xyu"}).Draw(t, "alias")
	return c
}

func genC03(t *rapid.T) C03Case {
	c := genFMA(t, true)
	c.Zone = false // (the zone of former finding F-03c is checked against the fused result like everything else)
	return c
}

// fmaVars builds the variables of a case honouring its aliasing shape and
// returns z, x, y, u. With aliasing, the shared variable takes the receiver's
// precision and mode when it is the receiver (so the operand value must fit:
// otherwise the aliasing is dropped, and that is labelled).
func fmaVars(c C03Case) (z, x, y, u *decimal.Decimal, alias string) {
	alias = c.Alias
	x = c.X.Build()
	y = c.Y.Build()
	u = c.U.Build()
	same := func(a, b h.Spec) bool { return a.Val().Equal(b.Val()) }
	switch alias {
	case "xy", "xyz":
		if !same(c.X, c.Y) {
			// make y the same variable as x only if the case has equal values
			alias = map[string]string{"xy": "", "xyz": "x"}[alias]
		} else {
			y = x
		}
	case "xu", "xyu":
		if !same(c.X, c.U) || alias == "xyu" && !same(c.X, c.Y) {
			alias = "u"
		} else {
			u = x
			if alias == "xyu" {
				y = x
			}
		}
	}
	z = mkRecv(c.P, c.M)
	recv := func(d *decimal.Decimal, s h.Spec) bool {
		// the receiver is the operand itself: it must carry the receiver attributes
		if s.F == "f" && uint(len(s.D)) > c.P {
			return false
		}
		d.SetMode(decimal.RoundingMode(c.M)).SetPrec(c.P)
		z = d
		return true
	}
	switch alias {
	case "x", "xyz":
		if !recv(x, c.X) {
			alias = ""
		}
	case "y":
		if !recv(y, c.Y) {
			alias = ""
		}
	case "u", "xu", "xyu":
		if !recv(u, c.U) {
			alias = ""
		}
	}
	return
}

// fmaProductOutOfRange: the exact product's exponent lies outside [MinExp, MaxExp]
// although every operand is in range (known finding F-03c).
func fmaProductOutOfRange(c C03Case) bool {
	if c.X.F != "f" || c.Y.F != "f" || c.U.F != "f" {
		// (with a zero addend FMA is Mul, which rounds the product correctly at the range ends too; with an
		// infinite addend the result is the addend, F-03d)
		return false
	}
	s := c.X.E + c.Y.E
	if s-1 > model.MaxExp || s < model.MinExp {
		return true
	}
	if s <= model.MaxExp && s-1 >= model.MinExp {
		return false
	}
	p := model.MulX(c.X.Val(), c.Y.Val())
	return p.Exp > model.MaxExp || p.Exp < model.MinExp
}

func checkC03(c C03Case, o *h.Obs) *h.Fail {
	if c.P == 0 {
		return h.Failf("bad-case", "precision 0")
	}
	xv, yv, uv := c.X.Val(), c.Y.Val(), c.U.Val()
	// when the receiver is an operand and precision/mode are imposed on it the operand value is unchanged
	want := model.Fma(xv, yv, uv, uint64(c.P), model.Mode(c.M))
	z, x, y, u, alias := fmaVars(c)
	nan := h.CatchNaN(func() { z.FMA(x, y, u) })
	got := h.Read(z)
	if fmaProductOutOfRange(c) {
		o.Label("product-exponent-out-of-range-with-finite-addend")
		o.NonTrivial()
	}

	special := c.X.F != "f" || c.Y.F != "f" || c.U.F != "f"
	o.Labelf("alias:%s", alias)
	if special {
		o.Label("special-operand")
		o.NonTrivial()
	}
	if alias != "" {
		o.NonTrivial()
	}
	if !special {
		// does the intermediate rounding matter?
		pr := model.Prod(xv, yv, uint64(c.P), model.Mode(c.M))
		if !pr.NaN && pr.V.Form == model.Finite {
			two := model.Sum(pr.V, uv, uint64(c.P), model.Mode(c.M))
			if !two.NaN && !want.NaN && !two.V.Equal(want.V) {
				o.Label("double-rounding-differs")
				o.NonTrivial()
			}
		}
		ex := model.AddXP(model.MulX(xv, yv).Val, uv, uint64(c.P))
		o.Label("round:" + model.Classify(ex, uint64(c.P)))
		if ex.Form == model.Zero {
			o.Label("exact-zero-sum")
			o.NonTrivial()
		} else if pd := len(xv.Digits) + len(yv.Digits); len(ex.Digits) <= pd/2 && pd > 6 {
			o.Label("massive-cancellation")
			o.NonTrivial()
		}
		if want.Acc != model.Exact {
			o.Label("inexact")
		}
	}
	if want.NaN {
		o.Label("NaN")
		if !nan {
			return h.Failf("nan-missing", "FMA(%v, %v, %v) must panic with ErrNaN, got %v", xv, yv, uv, got)
		}
		if got.Malformed != "" {
			return h.Failf("malformed", "receiver after ErrNaN: %v", got)
		}
		return nil
	}
	if nan {
		return h.Failf("nan-spurious", "FMA(%v, %v, %v) panicked with ErrNaN, want %v", xv, yv, uv, want)
	}
	if got.Malformed != "" {
		return h.Failf("malformed", "%v", got)
	}
	if !got.Val().Equal(want.V) {
		return h.Failf("value", "FMA(%v, %v, %v) prec %d %v alias=%q: got %v want %v", xv, yv, uv, c.P, model.Mode(c.M), alias, got.Val(), want.V)
	}
	if model.Acc(got.Acc) != want.Acc {
		return h.Failf("acc", "FMA(%v, %v, %v) prec %d %v alias=%q: value %v, accuracy %v want %v", xv, yv, uv, c.P, model.Mode(c.M), alias, got.Val(), model.Acc(got.Acc), want.Acc)
	}
	if got.Prec != c.P || got.Mode != c.M {
		return h.Failf("attrs", "receiver attributes changed: %v", got)
	}
	return nil
}

// checkFMAZone: inside the zone of known finding F-03c (the exact product's exponent is outside the range, the
// addend is not zero) the strict oracle is not applied; instead the outcome must be, in full (ErrNaN or value,
// sign, accuracy), either the fused result or the result of range-checking the product before the addition (the
// listed finding). A repaired library passes through the first alternative; anything else is a new violation.
func checkFMAZone(c C03Case, o *h.Obs, fused model.Res, nan bool, got h.Snap, alias string) *h.Fail {
	if !fmaProductOutOfRange(c) {
		return h.Failf("bad-case", "zone flag on a case outside the zone")
	}
	o.Label("f03c-zone")
	o.NonTrivial()
	xv, yv, uv := c.X.Val(), c.Y.Val(), c.U.Val()
	two := model.FmaRangeChecked(xv, yv, uv, uint64(c.P), model.Mode(c.M))
	matches := func(w model.Res) bool {
		if w.NaN || nan {
			return w.NaN == nan && got.Malformed == ""
		}
		return got.Malformed == "" && got.Val().Equal(w.V) && model.Acc(got.Acc) == w.Acc
	}
	switch {
	case matches(fused):
		o.Label("f03c-zone:fused-result")
	case matches(two):
		o.Label("f03c-zone:range-checked-product")
	default:
		desc := func(w model.Res) string {
			if w.NaN {
				return "ErrNaN"
			}
			return fmt.Sprintf("%v (%v)", w.V, w.Acc)
		}
		g := fmt.Sprintf("%v (%v)", got.Val(), model.Acc(got.Acc))
		if nan {
			g = "ErrNaN"
		} else if got.Malformed != "" {
			g = "malformed " + got.Malformed
		}
		return h.Failf("zone", "FMA(%v, %v, %v) prec %d %v alias=%q: got %s; the fused result is %s, and with the product range-checked first (known finding F-03c) %s", xv, yv, uv, c.P, model.Mode(c.M), alias, g, desc(fused), desc(two))
	}
	if !nan && (got.Prec != c.P || got.Mode != c.M) {
		return h.Failf("attrs", "receiver attributes changed: %v", got)
	}
	return nil
}

const ruleC03 = "rapid-generated (x, y, u, precision, mode, aliasing shape): small scope (1-3 digit operands, precision 1-4), massive cancellation u=-(x*y)+delta, the sum/difference cases of C01 replayed as FMA(x, 10^j, u), chosen exact sums (S a rounding pattern at the precision, u := S - x*y with a multi-word product placed around or up to 80 digits below the rounding position), products carrying a tie/all-nines pattern at the precision with u one unit far below (single vs double rounding), products with one to three significant digits (often exact powers of ten, 2^i * 5^i) with the addend placed within two digits of the receiver's last digit position and mostly of opposite sign (the sum crosses a decade), sparse multi-word products 1 0..0 d 0..0 d against an addend -(99..9) one exponent below, or against the negated leading part of the product itself (a short addend that leaves the product's low part) (decade-crossing cancellation that brings deep product digits to the front), zero and infinite operands in every position, product exponent near the range ends, generic word-patterned operands up to 300 (quick) / 4000 (thorough) digits; receiver fresh or aliased to x, y, u, x=y, x=u. Oracle: exact big.Int x*y+u rounded once (value, sign incl. IEEE zero-sum rule, accuracy), ErrNaN exactly for 0*Inf and Inf-Inf. Non-trivial = special operand, aliased receiver, Mul-then-Add would differ, exactly zero sum, or cancellation removing at least half of the product's digits. Cases whose exact product exponent leaves [MinExp,MaxExp] are excluded while the known finding F-03c is listed (counted under excluded_known)."

var propC03 = &h.Prop[C03Case]{ID: "C03", Rule: ruleC03, Gen: genC03, Check: checkC03,
	Matchers: map[string]func(C03Case) bool{"fma-product-exp-out-of-range": func(c C03Case) bool { return !c.Zone && fmaProductOutOfRange(c) }}}

func TestC03(t *testing.T)       { propC03.Search(t) }
func TestC03Replay(t *testing.T) { propC03.Replay(t) }

// TestC03Grid: products with a short head, a run of 140 000 (300 000 in the thorough tier) zeros or nines, and a small
// low part, plus an addend smaller than that low part (or cancelling it exactly): whether the result is exact, and
// on which side of it the exact sum lies, is decided 140 000 digits below the rounding position by the product's own
// lowest digits together with u. Expected results by construction.
func TestC03Grid(t *testing.T) {
	defer h.WriteStats("C03")
	ns := []int{140000, 1100000} // (the second: operands more than 2^20 digits apart)
	if h.Thorough() {
		ns = append(ns, 300000)
	}
	cnt := 0
	for _, n := range ns {
		onePlus3 := h.Spec{F: "f", D: "1" + strings.Repeat("0", n-1) + "3", E: int64(n + 1), P: uint(n + 1)} // 10^n + 3
		nines := h.Spec{F: "f", D: strings.Repeat("9", n), E: int64(n), P: uint(n)}                          // 10^n - 1
		seven := h.Spec{F: "f", D: "7", E: 1, P: 1}
		small := func(v int) h.Spec {
			s := h.Spec{F: "f", D: strconv.Itoa(abs(v)), Neg: v < 0, P: 3}
			s.E = int64(len(s.D))
			s.D = strings.TrimRight(s.D, "0")
			return s
		}
		type tc struct {
			x     h.Spec
			u     int
			p     uint
			m     model.Mode
			d     string
			e     int64
			acc   model.Acc
			about string
		}
		e := int64(n + 1)
		cases := []tc{
			{onePlus3, -1, 10, model.ToNearestEven, "7", e, model.Below, "(10^n+3)*7 - 1 = 7*10^n + 20"},
			{onePlus3, -1, 10, model.AwayFromZero, "7000000001", e, model.Above, "(10^n+3)*7 - 1"},
			{onePlus3, -20, 1, model.ToPositiveInf, "8", e, model.Above, "(10^n+3)*7 - 20 = 7*10^n + 1"},
			{onePlus3, -21, 5, model.AwayFromZero, "7", e, model.Exact, "(10^n+3)*7 - 21 = 7*10^n exactly"},
			{onePlus3, -22, 5, model.ToNearestEven, "7", e, model.Above, "(10^n+3)*7 - 22 = 7*10^n - 1"},
			{onePlus3, -22, 5, model.ToZero, "69999", e, model.Below, "(10^n+3)*7 - 22 = 7*10^n - 1"},
			{nines, 1, 10, model.ToNearestEven, "7", e, model.Above, "(10^n-1)*7 + 1 = 7*10^n - 6"},
			{nines, 1, 10, model.ToZero, "6999999999", e, model.Below, "(10^n-1)*7 + 1"},
			{nines, 7, 25, model.ToNegativeInf, "7", e, model.Exact, "(10^n-1)*7 + 7 = 7*10^n exactly"},
			{nines, 8, 25, model.ToNegativeInf, "7", e, model.Below, "(10^n-1)*7 + 8 = 7*10^n + 1"},
		}
		for _, c := range cases {
			for _, swap := range []bool{false, true} {
				x, y, u := c.x.Build(), seven.Build(), small(c.u).Build()
				if swap {
					x, y = y, x
				}
				z := mkRecv(c.p, uint8(c.m))
				z.FMA(x, y, u)
				got := h.Read(z)
				want := model.MkFinite(false, c.d, c.e)
				o := &h.Obs{}
				o.Label("giant-sparse-product")
				o.NonTrivial()
				if got.Malformed != "" || !got.Val().Equal(want) || model.Acc(got.Acc) != c.acc {
					h.ReportGridFail(t, "C03", h.Failf("giant", "%s with n = %d at precision %d %v: got %v (%v), want %v (%v)", c.about, n, c.p, c.m, got.Val(), model.Acc(got.Acc), want, c.acc), mustJSON(struct {
						N    int
						U    int
						P    uint
						M    model.Mode
						Swap bool
					}{n, c.u, c.p, c.m, swap}))
				}
				cnt++
			}
		}
	}
	h.AddExtra("C03", "giant_sparse_products", cnt)
	h.AddExtra("C03", "long_tail_addends", c03LongTailAddend(t))
	if h.Thorough() {
		// a product exactly 2^32-1 digits below u's leading digit and a receiver of precision MaxPrec = 2^32-1: the
		// product's leading digit IS the rounding digit (0.6 units of the last place), no sticky bit (9 s, 2 GB)
		x := h.Spec{F: "f", D: "6", E: model.MinExp + 1, P: 1}.Build()
		y := h.Spec{F: "f", D: "1", E: model.MinExp + 2, P: 1}.Build()
		u := h.Spec{F: "f", D: "1", E: 1, P: 1}.Build()
		z := new(decimal.Decimal).SetPrec(decimal.MaxPrec)
		z.FMA(x, y, u)
		mant, exp := z.BitsExp()
		ok := z.Acc() == decimal.Above && z.MinPrec() == decimal.MaxPrec && exp == 1 && len(mant) == 226050911 && mant[len(mant)-1] == decimal.Word(h.Base/10) && mant[0] == 100000000000000
		for i := 1; ok && i < len(mant)-1; i++ {
			ok = mant[i] == 0
		}
		if !ok {
			h.ReportGridFail(t, "C03", h.Failf("giant", "FMA(6e-2147483648, 1e-2147483647, 1) at precision MaxPrec ToNearestEven: accuracy %v, MinPrec %d; the product is 0.6 units of the last place: 1.00..01 (Above)", z.Acc(), z.MinPrec()), []byte(`{"grid":"product-is-the-rounding-digit"}`))
		}
		z = nil
		debug.FreeOSMemory()
		h.AddExtra("C03", "product_is_rounding_digit_at_maxprec", 1)
		// the same distance at a small precision: the library adds with the exponents shifted and u at the very end of
		// the shifted range (a carry there must not be taken for an overflow)
		for _, tc := range []struct {
			ud   string
			m    model.Mode
			want string
			acc  model.Acc
		}{{"1", model.ToPositiveInf, "10001", model.Above}, {"1", model.ToNearestEven, "1", model.Below}, {"99999", model.ToPositiveInf, "1", model.Above}, {"99999", model.ToZero, "99999", model.Below}} {
			uu := h.Spec{F: "f", D: tc.ud, E: 1, P: 5}.Build()
			zz := mkRecv(5, uint8(tc.m))
			zz.FMA(x, y, uu)
			got := h.Read(zz)
			wantV := model.MkFinite(false, tc.want, 1)
			if tc.ud == "99999" && tc.want == "1" {
				wantV = model.MkFinite(false, "1", 2)
			}
			if got.Malformed != "" || !got.Val().Equal(wantV) || model.Acc(got.Acc) != tc.acc {
				h.ReportGridFail(t, "C03", h.Failf("giant", "FMA(6e-2147483648, 1e-2147483647, 0.%se1) at precision 5 %v: got %v (%v), want %v (%v)", tc.ud, tc.m, got.Val(), model.Acc(got.Acc), wantV, tc.acc), []byte(`{"grid":"product-2^32-1-digits-below"}`))
			}
			debug.FreeOSMemory()
		}
		h.AddExtra("C03", "product_2^32-1_digits_below_small_precision", 4)
	}
	h.AddExtra("C03", "products_beyond_maxprec_digits", c03ProductBeyondMaxPrec(t))
}

// c03LongTailAddend: the product is longer than the receiver's precision and u meets its last digits (so that it
// carries or borrows through them) while u's own mantissa runs on for more than 2^20 digits below (one stray digit at
// the far end). An addition that reduces "an operand reaching that far down" to a sticky digit must not drop the part
// of u that overlaps the product. Oracle: the far digit only has to lie below everything else, so the reference
// result is the model's for the same operands with the stray digit 300 places down instead of 2^20.
func c03LongTailAddend(t *testing.T) int {
	const far1, far2, near = 1<<20 + 2000, 1<<24 + 300000, 300
	n := 0
	type shape struct {
		x, y, head string // digits of x (0.x), y, and of u's head, aligned at 10^-57 ("": u is the far digit alone)
		uneg       bool
		fars       []int
		about      string
	}
	shapes := []shape{
		{strings.Repeat("3", 57), "3", "1", false, []int{far1}, "0.(57 nines) + 10^-57 + tiny = 1 + tiny"},
		{"1" + strings.Repeat("0", 55) + "1", "1", "1", true, []int{far1}, "0.1(55 zeros)1 - 10^-57 - tiny = 0.1 - tiny"},
		{strings.Repeat("9", 57), "1", "2", false, []int{far1}, "0.(57 nines) + 2*10^-57 + tiny"},
		// the product ends in an exact tie at the smaller precisions and the addend is nothing but a digit millions of
		// places down, on either side: it alone decides the direction of the nearest modes
		{"15", "1", "", true, []int{far1, far2}, "0.15 - tiny (a tie at one digit, a hair less)"},
		{"25", "1", "", false, []int{far1, far2}, "0.25 + tiny (a tie at one digit, a hair more)"},
		{"1" + strings.Repeat("0", 17) + "5", "1", "", true, []int{far1, far2}, "0.1(17 zeros)5 - tiny (a tie at 18 digits)"},
		{strings.Repeat("9", 29) + "5", "1", "", false, []int{far2}, "0.(29 nines)5 + tiny (a tie at 29 digits that carries)"},
	}
	for _, sh := range shapes {
		for _, far := range sh.fars {
			for _, neg := range []bool{false, true} {
				mk := func(tail int) (x, y, u h.Spec) {
					x = h.Spec{F: "f", D: sh.x, E: 0, P: 57, Neg: neg}
					y = h.Spec{F: "f", D: sh.y, E: 1, P: 19}
					ud := sh.head + strings.Repeat("0", tail) + "1"
					u = h.Spec{F: "f", D: ud, E: -56, P: uint(len(ud)), Neg: sh.uneg != neg}
					if sh.head == "" {
						u = h.Spec{F: "f", D: "1", E: int64(-56 - tail), P: 1, Neg: sh.uneg != neg}
					}
					return
				}
				xs, ys, us := mk(far)
				_, _, un := mk(near)
				x, y, u := xs.Build(), ys.Build(), us.Build()
				for _, p := range []uint{1, 18, 19, 29, 30, 56, 57, 58, 76} {
					for md := model.Mode(0); md < 6; md++ {
						want := model.Fma(xs.Val(), ys.Val(), un.Val(), uint64(p), md)
						z := mkRecv(p, uint8(md))
						z.FMA(x, y, u)
						got := h.Read(z)
						o := &h.Obs{}
						o.Label("long-tail-addend")
						o.NonTrivial()
						enc := mustJSON(struct {
							Shape string
							Neg   bool
							P     uint
							M     model.Mode
						}{sh.about, neg, p, md})
						if got.Malformed != "" || !got.Val().Equal(want.V) || model.Acc(got.Acc) != want.Acc {
							h.ReportGridFail(t, "C03", h.Failf("long-tail", "%s (tiny = 10^-%d, negated: %v) at precision %d %v: got %v (%v), want %v (%v)", sh.about, 57+far, neg, p, md, got.Val(), model.Acc(got.Acc), want.V, want.Acc), enc)
						}
						h.RecordGrid("C03", o, json.RawMessage(enc))
						n++
					}
				}
			}
		}
	}
	return n
}

// c03ProductBeyondMaxPrec: operands of up to MaxPrec digits are valid, so the exact product can have more digit
// positions than any precision expresses (226050911 words = 4294967309 digits). x = (9*10^(D-1) + 1) scaled to the top
// of the exponent range with D = 19*226050910, y = c = 1240000000000000001, u = -c * (x's unit): x*y + u = 9c followed
// by zeros, exact in 20 digits, whatever the mode. A product rounded to MaxPrec digits before the addition loses the
// lowest digit and the sum comes out one unit low or inexact (F-37). About 5.4 GB and 4 s per mode.
func c03ProductBeyondMaxPrec(t *testing.T) int {
	const m = 226050910
	const c = 1240000000000000001
	defer debug.FreeOSMemory()
	xw := make([]decimal.Word, m)
	xw[0], xw[m-1] = 1, 9000000000000000000
	x := new(decimal.Decimal).SetPrec(19 * m)
	x.SetBitsExp(xw, math.MaxInt32-19)
	y := new(decimal.Decimal).SetPrec(19).SetBitsExp([]decimal.Word{c}, 19)
	_, xe := x.BitsExp()
	u := new(decimal.Decimal).SetPrec(19).SetBitsExp([]decimal.Word{c}, int64(xe)-19*m+19)
	u.Neg(u)
	if x.Acc() != decimal.Exact || xe != math.MaxInt32-19 || u.IsZero() || len(xw) != m {
		t.Fatalf("INFRA: giant FMA operands not as constructed (x acc %v exp %d)", x.Acc(), xe)
	}
	modes := []model.Mode{model.ToZero, model.ToNearestEven}
	if h.Thorough() {
		modes = []model.Mode{model.ToNearestEven, model.ToNearestAway, model.ToZero, model.AwayFromZero, model.ToNegativeInf, model.ToPositiveInf}
	}
	want := model.MkFinite(false, "11160000000000000009", math.MaxInt32)
	n := 0
	for _, md := range modes {
		for _, swap := range []bool{false, true} {
			if swap && !h.Thorough() && md != model.ToZero {
				continue
			}
			z := mkRecv(20, uint8(md))
			if swap {
				z.FMA(y, x, u)
			} else {
				z.FMA(x, y, u)
			}
			got := h.Read(z)
			o := &h.Obs{}
			o.Label("product-beyond-maxprec-digits")
			o.NonTrivial()
			enc := mustJSON(struct {
				Words int
				M     model.Mode
				Swap  bool
			}{m, md, swap})
			if got.Malformed != "" || !got.Val().Equal(want) || model.Acc(got.Acc) != model.Exact {
				h.ReportGridFail(t, "C03", h.Failf("giant", "(9*10^(D-1)+1)*c - c with D = 19*%d digits, precision 20 %v: got %v (%v), want %v (Exact)", m, md, got.Val(), model.Acc(got.Acc), want), enc)
			}
			h.RecordGrid("C03", o, json.RawMessage(enc))
			n++
		}
	}
	if xw[0] != 1 || xw[m-1] != 9000000000000000000 {
		t.Fatalf("C03 violated [operand-modified]: FMA changed x's mantissa")
	}
	return n
}

func abs(v int) int {
	if v < 0 {
		return -v
	}
	return v
}
