package props

import (
	"math"
	"runtime/debug"
	"strings"
	"testing"

	"github.com/db47h/decimal"
	"pgregory.net/rapid"

	"verif/h"
	"verif/model"
)

// C20: raw mantissa access and MantExp/SetMantExp are exact inverses.

type C20Case struct {
	Kind string   `json:"kind"` // bits | own | mantexp | setmantexp
	W    []uint64 `json:"w,omitempty"`
	Exp  int64    `json:"exp,omitempty"`
	X    h.Spec   `json:"x,omitempty"`
	P    uint     `json:"p"`
	M    uint8    `json:"m"`
	Z    *h.Spec  `json:"z,omitempty"` // previous contents of the receiver
	Same bool     `json:"same,omitempty"`
}

func genC20(t *rapid.T) C20Case {
	c := C20Case{M: h.GenMode(t, "zmode")}
	c.Kind = rapid.SampledFrom([]string{"bits", "bits", "bits", "own", "ownext", "ownsub", "mantexp", "setmantexp", "setmantexp"}).Draw(t, "kind")
	maxW := 60
	if h.Thorough() {
		maxW = 1000
	}
	switch c.Kind {
	case "bits":
		n := rapid.IntRange(0, 6).Draw(t, "n")
		if rapid.IntRange(0, 4).Draw(t, "long") == 0 {
			n = rapid.IntRange(0, maxW).Draw(t, "nlong")
		}
		ws := h.GenWords(t, "w", n+1)[:n]
		c.W = make([]uint64, n)
		for i := range ws {
			c.W[n-1-i] = ws[i]
		}
		// leading (top) zero words, low zero words, all zero
		switch rapid.IntRange(0, 6).Draw(t, "zeros") {
		case 0:
			for i := n - 1; i >= 0 && i >= n-rapid.IntRange(1, 3).Draw(t, "topz"); i-- {
				c.W[i] = 0
			}
		case 1:
			for i := 0; i < n && i < rapid.IntRange(1, 3).Draw(t, "lowz"); i++ {
				c.W[i] = 0
			}
		case 2:
			for i := range c.W {
				c.W[i] = 0
			}
		case 3:
			if n > 0 {
				// unnormalised top word: a few leading zero digits
				c.W[n-1] = c.W[n-1] % []uint64{10, 1000, 1000000000, h.Base / 10, h.Base / 100}[rapid.IntRange(0, 4).Draw(t, "topd")]
			}
		}
		stray := false
		if rapid.IntRange(0, 7).Draw(t, "stray") == 0 {
			// a rounding-sensitive head (from the rounding-pattern generator, at the receiver's precision), nothing but
			// zeros below it, and one stray digit somewhere in a long tail - the first or last digit of a word as often
			// as not: the only thing that makes the value inexact is a single digit many words away
			n = rapid.IntRange(3, maxW).Draw(t, "sn")
			p := rapid.IntRange(1, 19*n-20).Draw(t, "sp")
			if rapid.Bool().Draw(t, "spsmall") {
				p = rapid.IntRange(1, 60).Draw(t, "sps")
				if p > 19*n-20 {
					p = 19*n - 20
				}
			}
			head := h.GenRoundDigits(t, "sh", p)
			if len(head) > p+1 {
				head = head[:p+1] // keep at most the rounding digit
			}
			ds := []byte(head + strings.Repeat("0", 19*n-len(head)))
			pos := rapid.IntRange(len(head), 19*n-1).Draw(t, "spos")
			switch rapid.IntRange(0, 3).Draw(t, "salign") {
			case 0:
				pos -= pos % 19 // first digit of a word
			case 1:
				pos += 18 - pos%19 // last digit of a word
			}
			if pos < len(head) {
				pos = len(head)
			}
			if pos > 19*n-1 {
				pos = 19*n - 1
			}
			ds[pos] = byte('1' + rapid.IntRange(0, 8).Draw(t, "sdig"))
			w := h.DigitsToWords(string(ds))
			c.W = make([]uint64, len(w))
			for i := range w {
				c.W[i] = uint64(w[i])
			}
			c.P = uint(p)
			stray = true
		}
		switch rapid.IntRange(0, 5).Draw(t, "expcls") {
		case 0, 1:
			c.Exp = h.GenExp(t, "exp")
		case 2:
			c.Exp = model.MaxExp + int64(rapid.IntRange(-40, 40).Draw(t, "e")) + int64(19*n)*int64(rapid.IntRange(0, 1).Draw(t, "adj"))
		case 3:
			c.Exp = model.MinExp + int64(rapid.IntRange(-40, 40).Draw(t, "e")) + int64(19*n)*int64(rapid.IntRange(0, 1).Draw(t, "adj"))
		case 4:
			c.Exp = rapid.SampledFrom([]int64{1<<63 - 1, -1 << 63, 1<<63 - 40, -1<<63 + 40, 1 << 62, -1 << 62, 1 << 40, -1 << 40}).Draw(t, "edge") + int64(rapid.IntRange(0, 1).Draw(t, "e1"))*int64(rapid.IntRange(-39, 39).Draw(t, "e2"))
			if c.Exp > 0 && c.Exp < 1<<39 || c.Exp < 0 && c.Exp > -1<<39 {
				c.Exp = 1 << 40
			}
		default:
			c.Exp = rapid.Int64().Draw(t, "exp64")
		}
		digits := 19 * n
		pcls := rapid.IntRange(0, 5).Draw(t, "pcls")
		if stray {
			pcls = -1 // precision chosen with the head
		}
		switch pcls {
		case -1:
		case 0:
			c.P = 0
		case 1, 2:
			if digits > 1 {
				c.P = uint(rapid.IntRange(1, digits).Draw(t, "p"))
			} else {
				c.P = 1
			}
		default:
			c.P = uint(digits + rapid.IntRange(0, 40).Draw(t, "p"))
			if c.P == 0 {
				c.P = 1
			}
		}
		c.Z = genRecvPrev(t, c.P, c.M)
	case "own":
		c.X = h.GenAny(t, "x", 400)
		c.Exp = h.GenExp(t, "exp")
		switch rapid.IntRange(0, 7).Draw(t, "ownexp") {
		case 0:
			// exponents that leave the range with the receiver's own, untouched slice too
			c.Exp = model.MaxExp + int64(rapid.IntRange(-3, 40).Draw(t, "e"))
		case 1:
			c.Exp = model.MinExp + int64(rapid.IntRange(-40, 3).Draw(t, "e"))
		case 2:
			c.Exp = rapid.SampledFrom([]int64{1<<63 - 1, -1 << 63, 1 << 62, -1 << 62, 1 << 32, -1 << 32, 1<<32 + 5, -1<<32 - 5, 1 << 31, -1<<31 - 1, 1<<33 - 7, -1<<33 + 7}).Draw(t, "edge")
		}
		c.Same = rapid.IntRange(0, 2).Draw(t, "edit") == 0 // edit the top word in place before setting the slice back
	case "ownext":
		// the receiver's own BitsExp slice, extended within its capacity (as the documentation allows) by 1..6 more
		// significant words chosen here (often with leading zero digits, sometimes zero), set back with SetBitsExp:
		// source and destination of the normalising shift are then the same array
		c.X = h.GenFinite(t, "x", 200)
		c.X.Hist = rapid.SampledFrom([]string{"hugecap", "hugecap", "cap"}).Draw(t, "xh")
		if rapid.Bool().Draw(t, "xtight") {
			c.X.P = uint(len(c.X.D))
		} else if c.X.P > uint(len(c.X.D))+100 {
			c.X.P = uint(len(c.X.D)) + uint(rapid.IntRange(0, 100).Draw(t, "xp"))
		}
		k := rapid.IntRange(1, 6).Draw(t, "k")
		ws := h.GenWords(t, "ext", k)
		top := rapid.SampledFrom([]uint64{1, 7, 12345, 999999999, h.Base/10 - 1, 0, h.Base - 1, 5000000000000000}).Draw(t, "exttop")
		if rapid.IntRange(0, 3).Draw(t, "exttoprand") > 0 {
			ws[0] = top
		}
		c.W = make([]uint64, k) // little endian: c.W[k-1] is the new top word
		for i := range ws {
			c.W[k-1-i] = ws[i]
		}
		c.Exp = int64(rapid.IntRange(-200, 200).Draw(t, "exp"))
	case "ownsub":
		// a part of the receiver's own BitsExp slice - its more significant words m[k:], its less significant ones
		// m[:j], or a stretch in the middle - handed back to SetBitsExp: the argument then starts inside the
		// receiver's buffer, and whatever the library moves overlaps with it
		c.X = h.GenFinite(t, "x", 400)
		c.X.Hist = rapid.SampledFrom([]string{"", "pad", "hugecap", "cap"}).Draw(t, "xh")
		if c.X.P > uint(len(c.X.D))+200 {
			c.X.P = uint(len(c.X.D)) + uint(rapid.IntRange(0, 200).Draw(t, "xp"))
		}
		c.W = []uint64{uint64(rapid.IntRange(0, 12).Draw(t, "lo")), uint64(rapid.IntRange(0, 12).Draw(t, "hi"))} // words cut off at the low / high end
		c.Exp = h.GenExp(t, "exp")
	case "mantexp":
		c.X = h.GenAny(t, "x", 2000)
		c.Same = rapid.IntRange(0, 3).Draw(t, "same") == 0
		c.P = uint(rapid.IntRange(0, 50).Draw(t, "p"))
		c.Z = genRecvPrev(t, c.P, c.M)
	case "setmantexp":
		c.X = h.GenAny(t, "mant", 400)
		c.Same = rapid.IntRange(0, 3).Draw(t, "same") == 0
		e := c.X.E
		switch rapid.IntRange(0, 6).Draw(t, "expcls") {
		case 0:
			c.Exp = int64(rapid.IntRange(-60, 60).Draw(t, "exp"))
		case 1, 2:
			c.Exp = model.MaxExp - e + int64(rapid.IntRange(-3, 3).Draw(t, "exp"))
		case 3, 4:
			c.Exp = model.MinExp - e + int64(rapid.IntRange(-3, 3).Draw(t, "exp"))
		case 5:
			// the four corners: a mantissa exponent at the very end of the range and an offset of the full width
			// of the range, give or take one
			if c.X.F == "f" {
				if rapid.Bool().Draw(t, "cornerlow") {
					c.X.E = model.MinExp + int64(rapid.IntRange(0, 1).Draw(t, "ce"))
					c.Exp = int64(model.MaxExp) - int64(model.MinExp) + int64(rapid.IntRange(-2, 2).Draw(t, "co"))
				} else {
					c.X.E = model.MaxExp - int64(rapid.IntRange(0, 1).Draw(t, "ce"))
					c.Exp = int64(model.MinExp) - int64(model.MaxExp) + int64(rapid.IntRange(-2, 2).Draw(t, "co"))
				}
			}
		default:
			c.Exp = rapid.Int64Range(-1<<34, 1<<34).Draw(t, "exp")
			if rapid.Bool().Draw(t, "exp64") {
				// the whole int64 range and its ends (the sum of exponents is formed in 64 bits)
				c.Exp = rapid.SampledFrom([]int64{math.MaxInt64, math.MinInt64, math.MaxInt64 - 1, math.MinInt64 + 1, math.MaxInt64 - (1 << 31), math.MinInt64 + (1 << 31), 1 << 62, -1 << 62, 1<<62 + 1, 1 << 40, -1 << 40}).Draw(t, "expedge")
				if rapid.Bool().Draw(t, "exprand") {
					c.Exp = rapid.Int64().Draw(t, "exp64v")
				}
			}
		}
		c.P = uint(rapid.IntRange(0, 50).Draw(t, "p"))
		c.Z = genRecvPrev(t, c.P, c.M)
	}
	return c
}

func checkC20(c C20Case, o *h.Obs) *h.Fail {
	if c.Kind == "grid:giant-slice" {
		return h.Failf("replay-by-grid", "this case is enumerated by TestC20Grid (0.9 GB slice); re-run the check to reproduce")
	}
	o.Label(c.Kind)
	recv := func() *decimal.Decimal {
		if c.Z != nil {
			return c.Z.Build()
		}
		return mkRecv(c.P, c.M)
	}
	clampModelExp := func(e int64) int64 {
		if e > 1<<40 {
			return 1 << 40
		}
		if e < -(1 << 40) {
			return -(1 << 40)
		}
		return e
	}
	switch c.Kind {
	case "bits":
		z := recv()
		w := make([]decimal.Word, len(c.W))
		for i, v := range c.W {
			w[i] = decimal.Word(v)
		}
		ret := z.SetBitsExp(w, c.Exp)
		if ret != z {
			return h.Failf("api", "SetBitsExp did not return its receiver")
		}
		got := h.Read(z)
		if got.Malformed != "" {
			return h.Failf("malformed", "SetBitsExp(%v, %d): %v", c.W, c.Exp, got)
		}
		all := h.WordsToDigits(c.W)
		exact := model.MkFinite(false, all, clampModelExp(c.Exp))
		needsNorm := len(c.W) > 0 && c.W[len(c.W)-1] < h.Base/10
		if needsNorm {
			o.Label("bits:needs-normalisation")
			o.NonTrivial()
		}
		if c.Exp > model.MaxExp-40-int64(len(all)) || c.Exp < model.MinExp+40+int64(len(all)) {
			o.Label("bits:exponent-near-or-beyond-range")
			o.NonTrivial()
		}
		if got.Neg {
			return h.Failf("sign", "SetBitsExp gave a negative value %v", got)
		}
		if got.Mode != c.M {
			return h.Failf("mode", "mode changed to %v", model.Mode(got.Mode))
		}
		if exact.Form == model.Zero {
			o.Label("bits:all-zero")
			if got.Form != model.Zero || got.Acc != 0 {
				return h.Failf("zero", "all-zero slice gives %v", got)
			}
			return nil
		}
		prec := c.P
		if prec == 0 {
			// unspecified by the documentation: whatever precision was chosen must hold the value exactly
			prec = got.Prec
			o.Label("bits:prec0")
			want, acc := model.Round(model.X{Val: exact}, uint64(model.MaxPrec), model.Mode(c.M))
			if !got.Val().Equal(want) || model.Acc(got.Acc) != acc {
				return h.Failf("value", "SetBitsExp(%v, %d) into a precision-0 receiver: got %v, exact value %v", c.W, c.Exp, got, want)
			}
			return nil
		}
		if got.Prec != c.P {
			return h.Failf("prec", "precision changed from %d to %d", c.P, got.Prec)
		}
		want, acc := model.Round(model.X{Val: exact}, uint64(prec), model.Mode(c.M))
		if acc != model.Exact {
			o.Label("bits:rounded")
			o.NonTrivial()
		}
		if !got.Val().Equal(want) || model.Acc(got.Acc) != acc {
			return h.Failf("value", "SetBitsExp(%v, %d) at precision %d %v: got %v (%v), want %v (%v)", c.W, c.Exp, prec, model.Mode(c.M), got.Val(), model.Acc(got.Acc), want, acc)
		}
	case "own":
		x := c.X.Build()
		xv := c.X.Val()
		mant, e := x.BitsExp()
		// BitsExp denotes exactly the magnitude
		if xv.Form == model.Finite {
			u := make([]uint64, len(mant))
			for i, v := range mant {
				u[i] = uint64(v)
			}
			if back := model.MkFinite(false, h.WordsToDigits(u), int64(e)); !back.Equal(xv.AbsVal()) {
				return h.Failf("bitsexp", "BitsExp of %v denotes %v", xv, back)
			}
		} else if len(mant) != 0 {
			return h.Failf("bitsexp", "BitsExp of %v has %d words", xv, len(mant))
		}
		if xv.Form == model.Finite && len(mant) > 0 && c.Same {
			// the same slice header with its top word edited in place first (a smaller value: leading zero digits)
			o.Label("own:edited-in-place")
			top := uint64(mant[len(mant)-1]) / []uint64{10, 1000, 100000000000, h.Base / 10}[len(xv.Digits)%4]
			mant[len(mant)-1] = decimal.Word(top)
			u := make([]uint64, len(mant))
			for i, v := range mant {
				u[i] = uint64(v)
			}
			all := h.WordsToDigits(u)
			digits := strings.TrimLeft(all, "0")
			x.SetBitsExp(mant, c.Exp)
			got := h.Read(x)
			if got.Malformed != "" {
				return h.Failf("malformed", "own slice edited in place: %v", got)
			}
			if strings.TrimRight(digits, "0") == "" {
				if got.Form != model.Zero {
					return h.Failf("own", "own slice edited to all zeros: %v", got)
				}
				return nil
			}
			exact := model.MkFinite(false, strings.TrimRight(digits, "0"), clampModelExp(c.Exp)-int64(len(all)-len(digits)))
			want, acc := model.Round(model.X{Val: exact}, uint64(c.X.P), model.Mode(c.X.M))
			if c.X.P != 0 && (!got.Val().Equal(want) || model.Acc(got.Acc) != acc) {
				return h.Failf("own", "x = %v: top word of its own slice divided in place, SetBitsExp(same slice, %d): got %v (%v) want %v (%v)", xv, c.Exp, got.Val(), model.Acc(got.Acc), want, acc)
			}
			o.NonTrivial()
			return nil
		}
		x.SetBitsExp(mant, c.Exp)
		got := h.Read(x)
		if got.Malformed != "" {
			return h.Failf("malformed", "%v", got)
		}
		want, wacc := model.MkZero(false), model.Exact
		if xv.Form == model.Finite {
			// (exact unless the exponent leaves the range: then +0 or +Inf with the accuracy of the range rule)
			want, wacc = model.Round(model.X{Val: model.MkFinite(false, xv.Digits, clampModelExp(c.Exp))}, uint64(c.X.P), model.Mode(c.X.M))
			if want.Form != model.Finite {
				o.Label("own:exponent-leaves-range")
			}
		}
		if xv.Form == model.Finite && c.X.P != 0 {
			if !got.Val().Equal(want) || model.Acc(got.Acc) != wacc {
				return h.Failf("own", "x.SetBitsExp(x.BitsExp() mantissa, %d) of %v = %v want %v (%v)", c.Exp, xv, got, want, wacc)
			}
			o.NonTrivial()
		} else if got.Form != model.Zero {
			return h.Failf("own", "SetBitsExp of an empty own slice on %v = %v", xv, got)
		}
	case "ownsub":
		x := c.X.Build()
		mant, _ := x.BitsExp()
		lo, hi := int(c.W[0]), int(c.W[1])
		if lo+hi >= len(mant) {
			lo, hi = len(mant)-1, 0
			if lo < 0 {
				o.Label("ownsub:empty")
				return nil
			}
		}
		sub := mant[lo : len(mant)-hi]
		u := make([]uint64, len(sub))
		for i, v := range sub {
			u[i] = uint64(v)
		}
		all := h.WordsToDigits(u)
		digits := strings.TrimLeft(all, "0")
		x.SetBitsExp(sub, c.Exp)
		got := h.Read(x)
		if got.Malformed != "" {
			return h.Failf("malformed", "part [%d:%d] of x's own %d-word slice: %v", lo, len(mant)-hi, len(mant), got)
		}
		if lo > 0 {
			o.Label("ownsub:starts-inside-the-buffer")
			o.NonTrivial()
		}
		if strings.TrimRight(digits, "0") == "" {
			if got.Form != model.Zero {
				return h.Failf("ownsub", "all-zero part of the own slice: %v", got)
			}
			return nil
		}
		exact := model.MkFinite(false, strings.TrimRight(digits, "0"), clampModelExp(c.Exp)-int64(len(all)-len(digits)))
		prec := uint64(c.X.P)
		if c.X.P == 0 {
			return nil
		}
		want, acc := model.Round(model.X{Val: exact}, prec, model.Mode(c.X.M))
		if !got.Val().Equal(want) || model.Acc(got.Acc) != acc {
			return h.Failf("ownsub", "x = %v (%d words): SetBitsExp(own slice [%d:%d], %d): got %v (%v), want %v (%v)", c.X.Val(), len(mant), lo, len(mant)-hi, c.Exp, got.Val(), model.Acc(got.Acc), want, acc)
		}
		return nil
	case "ownext":
		x := c.X.Build()
		mant, _ := x.BitsExp()
		k := len(c.W)
		if cap(mant) < len(mant)+k {
			o.Label("ownext:no-capacity")
			return nil
		}
		n := len(mant)
		full := make([]uint64, n+k)
		for i := 0; i < n; i++ {
			full[i] = uint64(mant[i])
		}
		mant = mant[:n+k]
		for i, w := range c.W {
			mant[n+i] = decimal.Word(w)
			full[n+i] = w
		}
		x.SetBitsExp(mant, c.Exp)
		got := h.Read(x)
		if got.Malformed != "" {
			return h.Failf("malformed", "%v", got)
		}
		o.NonTrivial()
		digits := strings.TrimLeft(h.WordsToDigits(full), "0")
		lead := len(h.WordsToDigits(full)) - len(digits) // leading zero digits of 0.mant
		if strings.TrimRight(digits, "0") == "" {
			if got.Form != model.Zero {
				return h.Failf("ownext", "all-zero extended slice: %v", got)
			}
			return nil
		}
		exact := model.MkFinite(false, strings.TrimRight(digits, "0"), c.Exp-int64(lead))
		want, acc := model.Round(model.X{Val: exact}, uint64(c.X.P), model.Mode(c.X.M))
		if !got.Val().Equal(want) || model.Acc(got.Acc) != acc || got.Prec != c.X.P {
			return h.Failf("ownext", "x = %v (precision %d, %v): its own mantissa slice extended by the words %v and set back with exponent %d: got %v (%v), want %v (%v)", c.X.Val(), c.X.P, model.Mode(c.X.M), c.W, c.Exp, got.Val(), model.Acc(got.Acc), want, acc)
		}
	case "mantexp":
		x := c.X.Build()
		xv := c.X.Val()
		before := h.Read(x)
		mant := recv()
		if c.Same {
			mant = x
		}
		e := x.MantExp(mant)
		gm := h.Read(mant)
		if gm.Malformed != "" {
			return h.Failf("malformed", "mant: %v", gm)
		}
		if !c.Same {
			if after := h.Read(x); !after.SameAll(before) {
				return h.Failf("operand-modified", "MantExp changed x: %v -> %v", before, after)
			}
		}
		if e2 := x.MantExp(nil); !c.Same && e2 != e {
			return h.Failf("mantexp", "MantExp(nil) = %d, MantExp(mant) = %d", e2, e)
		}
		if xv.Form != model.Finite {
			o.Label("mantexp:special")
			if e != 0 || !gm.Val().Equal(xv) {
				return h.Failf("mantexp", "MantExp of %v = (%v, %d)", xv, gm.Val(), e)
			}
		} else {
			if int64(e) != xv.Exp {
				return h.Failf("mantexp", "MantExp of %v returns exponent %d", xv, e)
			}
			wm := xv
			wm.Exp = 0
			if !gm.Val().Equal(wm) {
				return h.Failf("mantexp", "mantissa of %v is %v", xv, gm.Val())
			}
			if xv.Exp > model.MaxExp-40 || xv.Exp < model.MinExp+40 {
				o.NonTrivial()
			}
		}
		if gm.Prec != before.Prec || gm.Mode != before.Mode || gm.Acc != before.Acc {
			return h.Failf("attrs", "mant attributes %v, x's %v", gm, before)
		}
		// SetMantExp(mant, MantExp(mant)) restores value and attributes
		z := recv()
		z.SetMantExp(mant, e)
		gz := h.Read(z)
		if gz.Malformed != "" || !gz.Val().Equal(xv) || gz.Prec != before.Prec || gz.Mode != before.Mode {
			return h.Failf("inverse", "SetMantExp(MantExp(%v)) = %v", before, gz)
		}
		if xv.Form == model.Finite && gz.Acc != 0 {
			return h.Failf("inverse", "rebuilding %v reports accuracy %v", xv, model.Acc(gz.Acc))
		}
	case "setmantexp":
		m := c.X.Build()
		mv := c.X.Val()
		before := h.Read(m)
		z := recv()
		if c.Same {
			z = m
		}
		ret := z.SetMantExp(m, int(c.Exp))
		if ret != z {
			return h.Failf("api", "SetMantExp did not return its receiver")
		}
		got := h.Read(z)
		if got.Malformed != "" {
			return h.Failf("malformed", "%v", got)
		}
		if !c.Same {
			if after := h.Read(m); !after.SameAll(before) {
				return h.Failf("operand-modified", "SetMantExp changed mant: %v -> %v", before, after)
			}
		}
		if got.Prec != before.Prec || got.Mode != before.Mode {
			return h.Failf("attrs", "result attributes %v, mant's %v", got, before)
		}
		if mv.Form != model.Finite {
			o.Label("setmantexp:special")
			if !got.Val().Equal(mv) {
				return h.Failf("special", "SetMantExp(%v, %d) = %v", mv, c.Exp, got.Val())
			}
			return nil
		}
		ev := mv
		off := c.Exp // the model's exponents are int64 too: far outside the range the outcome is the same
		if off > 1<<40 {
			off = 1 << 40
		} else if off < -1<<40 {
			off = -1 << 40
		}
		ev.Exp += off
		want, acc := model.Round(model.X{Val: ev}, uint64(before.Prec), model.Mode(before.Mode))
		inside := ev.Exp >= model.MinExp && ev.Exp <= model.MaxExp
		if d := ev.Exp - model.MaxExp; d >= -3 && d <= 3 {
			o.Label("setmantexp:near-MaxExp")
			o.NonTrivial()
		}
		if d := ev.Exp - model.MinExp; d >= -3 && d <= 3 {
			o.Label("setmantexp:near-MinExp")
			o.NonTrivial()
		}
		if inside != (got.Form == model.Finite) {
			return h.Failf("range", "SetMantExp(%v, %d): resulting exponent %d, got %v", mv, c.Exp, ev.Exp, got.Val())
		}
		if !got.Val().Equal(want) || model.Acc(got.Acc) != acc {
			return h.Failf("value", "SetMantExp(%v, %d) = %v (%v) want %v (%v)", mv, c.Exp, got.Val(), model.Acc(got.Acc), want, acc)
		}
	default:
		return h.Failf("bad-case", "kind %q", c.Kind)
	}
	return nil
}

const ruleC20 = "rapid-generated cases of four kinds. (bits) little-endian word slices of length 0..60 (quick) / 0..1000 (thorough), words < 10^19 from the pattern set, with leading zero words, low zero words, all-zero, unnormalised top word; exponents from every class incl. MaxExp/MinExp +- 40 (+ slice length), +-2^63 and neighbours, +-2^62, uniform int64; receiver precision 0, smaller than the slice's digits, or ample; six modes; receivers with previous contents. Oracle: +0.mant x 10^exp rounded once to the receiver's precision with accuracy, zero for an all-zero slice, range rule; BitsExp read back denotes the value. (own) x.SetBitsExp(x.BitsExp()) with a new exponent, in one case of three with the top word of the slice divided in place first (same slice header, leading zero digits). (ownext) the receiver's own slice extended within its capacity by 1..6 chosen more significant words and set back. (ownsub) a part of the receiver's own slice - m[k:], m[:j] or a stretch in the middle - set back with any exponent. (mantexp) all Decimals: x == mant x 10^exp with 0.1 <= |mant| < 1, attributes copied, specials, mant == x, SetMantExp(mant, exp) restores value and attributes. (setmantexp) any finite/special mant, offsets landing 0-3 steps inside/outside [MinExp, MaxExp], up to +-2^34, the four corners (mantissa exponent MinExp or MaxExp with an offset of +-(2^32-1) +- 2), and over the whole int64 range with its ends (MaxInt64, MinInt64, +-2^62, ...): +-0 / +-Inf exactly when the exponent sum leaves the range, accuracy, attributes of mant. Non-trivial = slice needing normalisation or rounding, exponent within 40 of a range end or beyond, SetMantExp landing within 3 of a range end."

var propC20 = &h.Prop[C20Case]{ID: "C20", Rule: ruleC20, Gen: genC20, Check: checkC20, Matchers: map[string]func(C20Case) bool{}}

func TestC20(t *testing.T)       { propC20.Search(t) }
func TestC20Replay(t *testing.T) { propC20.Replay(t) }

// TestC20Grid: one slice so long that its leading zeros are worth more than 2^31 digits (113 million words,
// 0.9 GB), with an exponent above 2^32 that brings the value back into range: the exponent correction must be
// carried in 64 bits all the way. Far beyond what the generated slices reach, hence enumerated.
func TestC20Grid(t *testing.T) {
	defer h.WriteStats("C20")
	const L = 113025460
	exp := int64(model.MaxExp) - 5 + 19*L - 1
	mant := make([]decimal.Word, L)
	mant[0] = 7
	z := new(decimal.Decimal).SetPrec(34)
	z.SetBitsExp(mant, exp)
	got := h.Read(z)
	o := &h.Obs{}
	o.Label("giant-slice")
	o.NonTrivial()
	c := C20Case{Kind: "grid:giant-slice", Exp: exp, P: 34}
	if want := model.MkFinite(false, "7", model.MaxExp-5); got.Malformed != "" || !got.Val().Equal(want) || got.Acc != 0 || got.Prec != 34 {
		h.ReportGridFail(t, "C20", h.Failf("value", "SetBitsExp([7, 0 x %d], %d) = %v, want %v exactly", L-1, exp, got, want), mustJSON(c))
	}
	// and one word longer: the value leaves the range at the bottom
	mant[0] = 7 // (SetBitsExp took the slice over and normalised its low word in place)
	z = new(decimal.Decimal).SetPrec(34)
	z.SetBitsExp(mant, int64(model.MinExp)+19*L-3)
	if got := h.Read(z); got.Malformed != "" || got.Form != model.Zero || got.Neg || model.Acc(got.Acc) != model.Below {
		h.ReportGridFail(t, "C20", h.Failf("value", "SetBitsExp([7, 0 x %d], MinExp+19L-3) = %v, want +0 (Below)", L-1, got), mustJSON(c))
	}
	h.RecordGrid("C20", o, c)
	if f := c20MaxPrecSlice(); f != nil {
		h.ReportGridFail(t, "C20", f, mustJSON(c))
	}
	if f := c20BeyondMaxPrecSlices(); f != nil {
		h.ReportGridFail(t, "C20", f, mustJSON(c))
	}
	h.AddExtra("C20", "giant_slice_cases", 6)
}

// TestC20GridMaxPrec (run with the grid): a slice with more digits than MaxPrec (226 050 911 words, 1.8 GB of
// mostly untouched zero pages) into a precision-0 receiver: the precision must saturate at MaxPrec (not wrap
// around 2^32) and the 14 digits beyond it must be rounded away. Checked on the words themselves.
func c20MaxPrecSlice() *h.Fail {
	const L = 226050911 // 19*L = MaxPrec + 14
	mant := make([]decimal.Word, L)
	mant[L-1] = 1234567890123456789
	mant[0] = 4200055555555555555 // kept digits 42000, dropped 55555555555555 (round up under ToNearestEven)
	z := new(decimal.Decimal)
	z.SetBitsExp(mant, 7)
	if z.Prec() != model.MaxPrec {
		return h.Failf("prec", "SetBitsExp of %d words (%d digits) into a precision-0 receiver: precision %d, want MaxPrec %d", L, uint64(L)*19, z.Prec(), uint64(model.MaxPrec))
	}
	got, e := z.BitsExp()
	if len(got) != L || e != 7 || uint64(got[L-1]) != 1234567890123456789 || uint64(got[0]) != 4200100000000000000 || z.Acc() != decimal.Above || z.MinPrec() != model.MaxPrec {
		return h.Failf("value", "SetBitsExp of %d words into a precision-0 receiver: %d words, exponent %d, top word %d, lowest word %d (want 4200100000000000000), accuracy %v, MinPrec %d", L, len(got), e, got[len(got)-1], got[0], z.Acc(), z.MinPrec())
	}
	return nil
}

// FuzzSetBitsExp is the native coverage-guided leg of C20 (thorough tier): up to eight words (reduced below 10^19),
// exponent, precision and mode from the fuzzer's arguments, same oracle as the generated "bits" cases.
func FuzzSetBitsExp(f *testing.F) {
	f.Add(uint64(1), uint64(0), uint64(0), uint64(0), int64(0), uint16(34), uint8(0), uint8(1))
	f.Add(uint64(h.Base-1), uint64(h.Base-1), uint64(5000000000000000000), uint64(0), int64(2147483647), uint16(20), uint8(3), uint8(3))
	f.Add(uint64(0), uint64(0), uint64(123), uint64(0), int64(-2147483648), uint16(0), uint8(2), uint8(4))
	f.Add(uint64(4200055555555555555), uint64(0), uint64(0), uint64(1000000000000000000), int64(1)<<62, uint16(5), uint8(5), uint8(4))
	f.Fuzz(func(t *testing.T, w0, w1, w2, w3 uint64, exp int64, prec uint16, mode uint8, n uint8) {
		ws := []uint64{w0 % h.Base, w1 % h.Base, w2 % h.Base, w3 % h.Base, (w0 ^ w2) % h.Base, (w1 + w3) % h.Base, w0 / 7 % h.Base, w3 / 1000}
		c := C20Case{Kind: "bits", W: ws[:int(n)%9%len(ws)+0], Exp: exp, P: uint(prec % 200), M: mode % 6}
		if fail := propC20.SafeCheck(c, &h.Obs{}); fail != nil {
			h.FuzzFail(t, "C20", fail, c)
		}
	})
}

// c20BeyondMaxPrecSlices: slices of more than 2^32 digits (226 050 913 words) into receivers of precision 1 and 5 - the
// rounding digit's index itself does not fit 32 bits - and the same length made almost entirely of leading zero words
// with an exponent of 6.4e9 that brings the value back to the top of the range.
func c20BeyondMaxPrecSlices() *h.Fail {
	debug.FreeOSMemory()
	defer debug.FreeOSMemory()
	const L = 226050913
	mant := make([]decimal.Word, L)
	// 0.15 0...0 1: at precision 1 a tie decided by the lowest word
	mant[L-1], mant[0] = 1500000000000000000, 1
	z := new(decimal.Decimal).SetPrec(1)
	z.SetBitsExp(mant, 0)
	if got := h.Read(z); got.Malformed != "" || !got.Val().Equal(model.MkFinite(false, "2", 0)) || model.Acc(got.Acc) != model.Above {
		return h.Failf("value", "SetBitsExp of %d words (0.15, zeros, a final 1) at precision 1 ToNearestEven: %v (%v), want 0.2 (Above)", L, got.Val(), model.Acc(got.Acc))
	}
	mant, z = nil, nil
	debug.FreeOSMemory() // one 1.8 GB slice at a time
	mant = make([]decimal.Word, L)
	mant[L-1], mant[L-2] = 1234549999999999999, 9999999999999999999 // 0.12345|4999...9 then zeros: just below a tie at precision 5
	z = new(decimal.Decimal).SetPrec(5).SetMode(decimal.ToNearestAway)
	z.SetBitsExp(mant, 3)
	if got := h.Read(z); got.Malformed != "" || !got.Val().Equal(model.MkFinite(false, "12345", 3)) || model.Acc(got.Acc) != model.Below {
		return h.Failf("value", "SetBitsExp of %d words (0.12345 4999..9, zeros) at precision 5 ToNearestAway: %v (%v), want 0.12345e3 (Below)", L, got.Val(), model.Acc(got.Acc))
	}
	// leading zeros worth 4.29e9 digits, exponent 6.44e9: 0.7 x 10^(MaxExp-5)
	mant, z = nil, nil
	debug.FreeOSMemory()
	mant = make([]decimal.Word, L)
	mant[0] = 7
	exp := int64(model.MaxExp) - 5 + 19*L - 1
	z = new(decimal.Decimal).SetPrec(34)
	z.SetBitsExp(mant, exp)
	if got := h.Read(z); got.Malformed != "" || !got.Val().Equal(model.MkFinite(false, "7", model.MaxExp-5)) || got.Acc != 0 {
		return h.Failf("value", "SetBitsExp([7, 0 x %d], %d) = %v, want 0.7e%d exactly", L-1, exp, got, model.MaxExp-5)
	}
	return nil
}
