package props

import (
	"fmt"
	"math"
	"math/big"
	"runtime"
	"sort"
	"strconv"
	"strings"
	"sync"
	"sync/atomic"
	"testing"
	"time"

	"github.com/db47h/decimal"
	"pgregory.net/rapid"

	"verif/h"
	"verif/model"
)

// C15: binary floating-point conversions: nearest on output, faithful on input.

type C15Case struct {
	Op   string  `json:"op"` // setfloat64 setfloat float64 float32 float
	Bits uint64  `json:"bits,omitempty"`
	FM   string  `json:"fm,omitempty"` // big.Float mantissa (integer, decimal string)
	FE   int     `json:"fe,omitempty"` // big.Float binary exponent applied to FM
	FP   uint    `json:"fp,omitempty"` // big.Float precision
	FK   string  `json:"fk,omitempty"` // "", "+inf", "-inf", "+0", "-0"
	X    h.Spec  `json:"x,omitempty"`
	P    uint    `json:"p"`
	M    uint8   `json:"m"`
	Z    *h.Spec `json:"z,omitempty"`
	DK   string  `json:"dk,omitempty"` // Float: what the destination held before ("", "+inf", "-inf", "big", "tiny")
	// Pre: float64/float32: a value converted (and discarded) right before x. Whatever the library remembers between
	// conversions (tables, caches of powers) must not change the next result.
	Pre *h.Spec `json:"pre,omitempty"`
}

func (c C15Case) bigFloat() *big.Float {
	f := new(big.Float).SetPrec(c.FP)
	switch c.FK {
	case "+inf":
		return f.SetInf(false)
	case "-inf":
		return f.SetInf(true)
	case "+0":
		return f
	case "-0":
		return f.Neg(f)
	}
	f.SetMode(big.ToZero).SetInt(bigOf(c.FM))
	return f.SetMantExp(f, c.FE)
}

// halfwayDecimal returns the exact decimal value halfway between f and the next float64 above it in magnitude.
func halfwayDecimal(f float64) model.Val {
	g := math.Nextafter(f, math.Inf(1))
	if f < 0 {
		g = math.Nextafter(f, math.Inf(-1))
	}
	a, _ := new(big.Float).SetFloat64(f).Rat(nil)
	b, _ := new(big.Float).SetFloat64(g).Rat(nil)
	a.Add(a, b)
	a.Quo(a, big.NewRat(2, 1))
	return model.FromRat(a, 1200).Val
}

func halfwayDecimal32(f float32) model.Val {
	g := math.Nextafter32(f, float32(math.Inf(1)))
	if f < 0 {
		g = math.Nextafter32(f, float32(math.Inf(-1)))
	}
	a, _ := new(big.Float).SetFloat64(float64(f)).Rat(nil)
	b, _ := new(big.Float).SetFloat64(float64(g)).Rat(nil)
	a.Add(a, b)
	a.Quo(a, big.NewRat(2, 1))
	return model.FromRat(a, 400).Val
}

func genC15(t *rapid.T) (c C15Case) {
	c = C15Case{M: h.GenMode(t, "zmode")}
	c.Op = rapid.SampledFrom([]string{"setfloat64", "setfloat64", "setfloat", "float64", "float64", "float32", "float", "float64f", "float32f", "setfloatx", "floatx"}).Draw(t, "op")
	faithful := false
	if c.Op == "float64f" || c.Op == "float32f" {
		// same inputs as float64/float32, weaker oracle that also holds inside the known-finding zone
		faithful = true
		c.Op = c.Op[:7]
	}
	defer func() {
		if faithful {
			c.Op += "f"
		}
	}()
	switch c.Op {
	case "setfloatx":
		// big.Float at the ends of its own exponent range (binary exponent within a few hundred of +-2^31):
		// the decimal value has a nine-digit exponent, the conversion goes through the exponent-limit branch
		c.FP = uint(rapid.SampledFrom([]int{1, 2, 24, 53, 63, 64, 65, 100, 128, 200}).Draw(t, "fp"))
		if rapid.Bool().Draw(t, "fprand") {
			c.FP = uint(rapid.IntRange(1, 300).Draw(t, "fpr"))
		}
		m := new(big.Int).Lsh(big.NewInt(1), c.FP-1) // top bit set: MinPrec can reach the full precision
		low, _ := new(big.Int).SetString(h.GenDigits(t, "fm", int(c.FP)/3+2), 10)
		m.Or(m, low.Mod(low, m))
		if rapid.Bool().Draw(t, "fodd") {
			m.SetBit(m, 0, 1)
		}
		if rapid.Bool().Draw(t, "fneg") {
			m.Neg(m)
		}
		c.FM = m.String()
		if rapid.Bool().Draw(t, "flow") {
			c.FE = math.MinInt32 + rapid.IntRange(0, 400).Draw(t, "feoff") - int(c.FP) // value = m * 2^FE; exponent of the float = FE + bits(m)
		} else {
			c.FE = math.MaxInt32 - rapid.IntRange(0, 400).Draw(t, "feoff") - int(c.FP)
		}
		c.P = uint(rapid.IntRange(1, 60).Draw(t, "p"))
		if rapid.IntRange(0, 4).Draw(t, "p0") == 0 {
			c.P = 0
		}
		c.Z = genRecvPrev(t, c.P, c.M)
	case "setfloat64":
		c.Bits = genFloat64Bits(t, "f")
		switch rapid.IntRange(0, 5).Draw(t, "pcls") {
		case 0:
			c.P = 0
		case 1:
			c.P = uint(rapid.IntRange(1, 6).Draw(t, "p"))
		case 2:
			c.P = uint(rapid.IntRange(15, 19).Draw(t, "p"))
		case 3:
			c.P = uint(rapid.IntRange(700, 800).Draw(t, "p"))
		default:
			c.P = uint(rapid.IntRange(1, 120).Draw(t, "p"))
		}
		c.Z = genRecvPrev(t, c.P, c.M)
	case "setfloat":
		if rapid.IntRange(0, 5).Draw(t, "nearboundary") == 0 {
			// a binary value m * 2^k (|k| up to 3000: far beyond what the receiver's precision holds, so the conversion
			// scales) constructed to lie 10^-(P+9)..10^-(P+100) from a number of P digits: the "few dozen units" bound
			// and the receiver's attributes must survive whatever an implementation does when it cannot decide
			pc := genPow2Near(t, 3000)
			body := strings.TrimPrefix(pc.S, "-")
			i := strings.IndexByte(body, 'p')
			mi, _ := new(big.Int).SetString(body[:i], 10)
			k, _ := strconv.Atoi(body[i+1:])
			if strings.HasPrefix(pc.S, "-") {
				mi.Neg(mi)
			}
			c.FM, c.FE, c.FP = mi.String(), k, uint(mi.BitLen()+rapid.IntRange(0, 70).Draw(t, "nbp"))
			c.P, c.M = pc.P, pc.M
			c.Z = nil
			return c
		}
		c.FK = rapid.SampledFrom([]string{"", "", "", "", "", "+inf", "-inf", "+0", "-0"}).Draw(t, "fk")
		c.FP = uint(rapid.IntRange(1, 300).Draw(t, "fp"))
		if rapid.IntRange(0, 4).Draw(t, "fpbig") == 0 {
			c.FP = uint(rapid.IntRange(1, 2000).Draw(t, "fpb"))
		}
		m := new(big.Int).Lsh(big.NewInt(1), c.FP)
		mm, _ := new(big.Int).SetString(h.GenDigits(t, "fm", int(c.FP)/3+2), 10)
		mm.Mod(mm, m)
		if mm.Sign() == 0 {
			mm.SetInt64(1)
		}
		if rapid.Bool().Draw(t, "fneg") {
			mm.Neg(mm)
		}
		c.FM = mm.String()
		lim := 3000
		if h.Thorough() {
			lim = 30000
		}
		c.FE = rapid.IntRange(-lim, lim).Draw(t, "fe")
		if rapid.Bool().Draw(t, "fesmall") {
			c.FE = rapid.IntRange(-80, 80).Draw(t, "fes")
		}
		smallExact := rapid.IntRange(0, 3).Draw(t, "smallexact") == 0
		if smallExact {
			// small integers and dyadic fractions whose expansion fits tiny precisions
			c.FM = big.NewInt(int64(rapid.IntRange(-2000, 2000).Draw(t, "fmsmall"))).String()
			if c.FM == "0" {
				c.FM = "15"
			}
			c.FE = rapid.IntRange(-12, 12).Draw(t, "fesm")
			c.FP = uint(rapid.IntRange(11, 64).Draw(t, "fpsm"))
		}
		switch rapid.IntRange(0, 3).Draw(t, "pcls") {
		case 0:
			c.P = 0
		case 1:
			c.P = uint(rapid.IntRange(1, 10).Draw(t, "p"))
		default:
			c.P = uint(rapid.IntRange(1, 700).Draw(t, "p"))
		}
		if smallExact && c.P > 12 {
			c.P = uint(rapid.IntRange(1, 12).Draw(t, "psm"))
		}
		if c.FK == "" && rapid.IntRange(0, 11).Draw(t, "hugeprec") == 0 {
			// a short value carried by a big.Float of enormous precision into a precision-0 receiver: the documented
			// ceil(x.Prec()*log10 2) at precisions where the product is close to an integer, at 32-bit edges, anywhere
			c.FM, c.FE = big.NewInt(int64(rapid.IntRange(1, 999).Draw(t, "hp.m"))).String(), rapid.IntRange(-8, 8).Draw(t, "hp.e")
			switch rapid.IntRange(0, 2).Draw(t, "hp.cls") {
			case 0:
				c.FP = uint(rapid.SampledFrom([]uint64{198096465, 396192930, 594289395, 3961929300, 4160025765, 6107016, 12214032, 325147, 254370, 70777, 42039, 28738, 13301,
					191989449, 204203481, 579517, 904664, 1159034, 1229811, 1<<32 - 1, 1 << 31, 1<<31 + 1, 3435973837}).Draw(t, "hp.tight"))
			case 1:
				c.FP = uint(rapid.Uint32Range(1<<20, 1<<32-1).Draw(t, "hp.wide"))
			default:
				c.FP = uint(rapid.IntRange(2001, 1<<22).Draw(t, "hp.mid"))
			}
			c.P = 0
			c.Z = genRecvPrev(t, c.P, c.M)
			return c
		}
		if c.FK == "" && rapid.IntRange(0, 4).Draw(t, "shortdec") == 0 {
			// short decimals d x 10^v held exactly by the big.Float: the mantissa carries 5^v, the binary
			// exponent is large and positive, yet the expansion has only len(d) digits and must be stored
			// exactly by every receiver of at least that precision
			d := h.GenDigits(t, "sd", 40)
			v := rapid.IntRange(0, 400).Draw(t, "sv")
			if rapid.Bool().Draw(t, "svsmall") {
				v = rapid.IntRange(20, 120).Draw(t, "svs")
			}
			m := bigOf(d)
			m.Mul(m, new(big.Int).Exp(big.NewInt(5), big.NewInt(int64(v)), nil))
			c.FP = uint(m.BitLen() + rapid.IntRange(0, 70).Draw(t, "sfp"))
			if rapid.Bool().Draw(t, "fneg2") {
				m.Neg(m)
			}
			c.FM, c.FE = m.String(), v
			c.P = uint(len(d) + rapid.IntRange(-2, 3).Draw(t, "sp"))
			if len(d) < 3 && rapid.Bool().Draw(t, "sp1") {
				c.P = uint(len(d))
			}
			if c.P < 1 || c.P > 1<<20 {
				c.P = 1
			}
		}
		c.Z = genRecvPrev(t, c.P, c.M)
	case "float64", "float32":
		switch rapid.IntRange(0, 6).Draw(t, "xk") {
		case 6:
			// integers next to powers of two (2^k + d, |d| <= 1100): the limits of the machine integer types and of
			// the float formats' integer ranges, where a shortcut through uint64/int64 or float arithmetic wraps or
			// rounds (2^64-1 converts to 2^64, which no uint64 holds)
			k := rapid.SampledFrom([]int{64, 64, 63, 53, 54, 24, 25, 31, 32, 62, 65, 100, 127, 128, 1023}).Draw(t, "bk")
			v := new(big.Int).Lsh(big.NewInt(1), uint(k))
			v.Add(v, big.NewInt(int64(rapid.IntRange(-1100, 1100).Draw(t, "bd"))))
			if rapid.IntRange(0, 3).Draw(t, "bneg") == 0 {
				v.Neg(v)
			}
			if v.Sign() == 0 {
				v.SetInt64(1)
			}
			mv := model.FromInt(v, 0)
			c.X = h.SpecOf(mv, uint(len(mv.Digits))+uint(rapid.SampledFrom([]int{0, 0, 3, 19}).Draw(t, "bp")), h.GenMode(t, "xm"))
		case 0, 1:
			// exactly halfway between two adjacent floats, and halfway +- a tiny amount
			var v model.Val
			if c.Op == "float64" {
				f := math.Float64frombits(genFloat64Bits(t, "base"))
				if math.IsNaN(f) || math.IsInf(f, 0) || f == 0 || math.Abs(f) == math.MaxFloat64 {
					f = 1.5
				}
				v = halfwayDecimal(f)
			} else {
				f := math.Float32frombits(rapid.Uint32().Draw(t, "base32"))
				if f != f || math.IsInf(float64(f), 0) || f == 0 || math.Abs(float64(f)) == math.MaxFloat32 {
					f = 1.5
				}
				v = halfwayDecimal32(f)
			}
			switch rapid.IntRange(0, 2).Draw(t, "nudge") {
			case 1:
				v = model.AddX(v, model.MkFinite(false, "1", v.Exp-int64(len(v.Digits))-int64(rapid.IntRange(0, 40).Draw(t, "k")))).Val
			case 2:
				v = model.AddX(v, model.MkFinite(true, "1", v.Exp-int64(len(v.Digits))-int64(rapid.IntRange(0, 40).Draw(t, "k")))).Val
			}
			c.X = h.SpecOf(v, uint(len(v.Digits)), h.GenMode(t, "xm"))
		case 2:
			// the exact expansion of a float (representable): must come back bit for bit
			f := math.Float64frombits(genFloat64Bits(t, "rep"))
			if math.IsNaN(f) {
				f = 0.1
			}
			if c.Op == "float32" {
				f = float64(float32(f))
				if rapid.IntRange(0, 2).Draw(t, "f32bits") == 0 {
					// float32 bit patterns drawn directly: subnormals and the lowest binades (the longest decimal
					// expansions a float32 has: 112 digits at 0x007fffff), full and sparse mantissas, the top binade
					bits := rapid.SampledFrom([]uint32{0x007fffff, 0x00ffffff, 0x00800000, 0x00800001, 0x00000001, 0x00000003, 0x007ffffe, 0x00fffffe, 0x017fffff, 0x7f7fffff, 0x7f7ffffe, 0x3f800001, 0x00400001}).Draw(t, "f32edge")
					if rapid.Bool().Draw(t, "f32rand") {
						bits = rapid.Uint32Range(1, 0x02ffffff).Draw(t, "f32low")
					}
					f = float64(math.Float32frombits(bits))
				}
			}
			c.X = float64Spec(f)
			c.X.M = h.GenMode(t, "xm")
			if c.X.F == "f" && rapid.IntRange(0, 3).Draw(t, "stray") == 0 {
				// ... followed by zeros and one stray digit, a few digits to forty thousand digits below: the value comes
				// back unchanged, the accuracy must say on which side of x it lies
				depth := rapid.IntRange(1, 60).Draw(t, "strayd")
				switch rapid.IntRange(0, 4).Draw(t, "straycls") {
				case 0:
					depth = rapid.IntRange(60, 12000).Draw(t, "strayd2")
				case 1:
					depth = rapid.SampledFrom([]int{1024, 2048}).Draw(t, "straywords")*h.DW + rapid.IntRange(-40, 400).Draw(t, "strayd3")
				case 2:
					if h.Rare(t, "straydeep", 6) {
						// tens of thousands of digits down (the power of five behind the conversion is that large)
						depth = rapid.IntRange(8000, 140000).Draw(t, "strayd4")
					}
				}
				v := c.X.Val()
				w := model.AddX(v, model.MkFinite(rapid.Bool().Draw(t, "strayneg"), string(byte('1'+rapid.IntRange(0, 8).Draw(t, "straydig"))), v.Exp-int64(len(v.Digits))-int64(depth))).Val
				if w.Form == model.Finite && w.Neg == v.Neg {
					c.X = h.SpecOf(w, uint(len(w.Digits)), c.X.M)
				}
			}
		case 3:
			// around the ends of the format's range
			edges := []float64{math.MaxFloat64, math.SmallestNonzeroFloat64, 2.2250738585072014e-308}
			if c.Op == "float32" {
				edges = []float64{math.MaxFloat32, math.SmallestNonzeroFloat32, 1.1754943508222875e-38}
			}
			f := rapid.SampledFrom(edges).Draw(t, "edge")
			v := float64Spec(f).Val()
			d := model.MkFinite(rapid.Bool().Draw(t, "dneg"), h.GenDigits(t, "dd", 5), v.Exp-int64(rapid.IntRange(0, 25).Draw(t, "doff")))
			if w := model.AddX(v, d).Val; w.Form == model.Finite && !w.Neg {
				v = w
			}
			v.Neg = rapid.Bool().Draw(t, "neg")
			c.X = h.SpecOf(v, uint(len(v.Digits)), h.GenMode(t, "xm"))
		case 4:
			if !h.Rare(t, "pw.rare", 12) {
				c.X = h.GenAny(t, "x", 800)
				break
			}
			// a pair of conversions whose powers of five (5^n with n = digits below the point) differ by exactly
			// 2^k, k = 8..17: the second one (a value of thousands of digits) is checked
			k := rapid.IntRange(8, 17).Draw(t, "pw.k")
			pd := h.GenDigitsN(t, "pw.pd", rapid.IntRange(1, 19).Draw(t, "pw.pn"))
			pe := int64(rapid.IntRange(-60, 10).Draw(t, "pw.pe"))
			pre := h.Spec{F: "f", D: pd, E: pe, P: uint(len(pd)), M: h.GenMode(t, "pw.pm")}
			// n of the first value: 19*words - exp; the second gets n + 2^k through a long fractional part
			nPre := int64((len(pd)+h.DW-1)/h.DW*h.DW) - pe
			n2 := nPre + int64(1)<<uint(k)
			// x: li integer digits, then zeros, then a last digit; its mantissa fills whole words, so that
			// n = 19*words - exp = (li + fractional digits) - li = n2
			li := h.DW - int(n2%int64(h.DW))
			id := h.GenDigitsN(t, "pw.id", li)
			for len(id) < li {
				id += "0"
			}
			total := int(n2) + li
			d := id + strings.Repeat("0", total-li-1) + "7"
			c.X = h.Spec{F: "f", D: d, E: int64(li), P: uint(total), M: h.GenMode(t, "xm")}
			c.Pre = &pre
		default:
			c.X = h.GenAny(t, "x", 800)
			if c.X.F == "f" && rapid.IntRange(0, 3).Draw(t, "inrange") > 0 {
				lim := 330
				if c.Op == "float32" {
					lim = 50
				}
				c.X.E = int64(rapid.IntRange(-lim, lim).Draw(t, "xe"))
			}
		}
	case "floatx":
		// Float far from the ordinary range: decimal exponents up to the limits of big.Float's own exponent range
		// (about +-6.4e8), where the powers of five behind the conversion are large
		c.X = h.GenFinite(t, "x", 60)
		c.X.Hist = ""
		c.X.E = int64(rapid.IntRange(-640000000, 640000000).Draw(t, "xe"))
		if rapid.Bool().Draw(t, "xemid") {
			c.X.E = int64(rapid.IntRange(-30000000, 30000000).Draw(t, "xe2"))
		}
		if lim := uint(len(c.X.D)) + 500; c.X.P > lim {
			c.X.P = lim
		}
		c.FP = uint(rapid.SampledFrom([]int{24, 53, 64, 113, 300}).Draw(t, "fp"))
	case "float":
		c.X = h.GenAny(t, "x", 600)
		if c.X.F == "f" {
			c.X.E = h.GenExpModerate(t, "xe", 5000)
			if lim := uint(len(c.X.D)) + 2000; c.X.P > lim {
				c.X.P = lim
			}
		}
		c.FP = uint(rapid.SampledFrom([]int{0, 0, 1, 24, 53, 64, 113, 300, 2000}).Draw(t, "fp"))
		c.DK = rapid.SampledFrom([]string{"", "", "+inf", "-inf", "big", "tiny"}).Draw(t, "dk")
	}
	return c
}

// ratAccuracy returns sign(f - r) for a finite or infinite float value f and exact r.
func ratAccuracy(f float64, r *big.Rat) model.Acc {
	switch {
	case math.IsInf(f, 1):
		return model.Above
	case math.IsInf(f, -1):
		return model.Below
	}
	fr := new(big.Rat).SetFloat64(f)
	return model.Acc(fr.Cmp(r))
}

func checkC15(c C15Case, o *h.Obs) *h.Fail {
	o.Label(c.Op)
	recv := func() *decimal.Decimal {
		if c.Z != nil {
			return c.Z.Build()
		}
		return mkRecv(c.P, c.M)
	}
	switch c.Op {
	case "setfloatx":
		return checkSetFloatExtreme(c, o, recv())
	case "setfloat64", "setfloat":
		z := recv()
		var exactRat *big.Rat
		var neg, isInf, isZero bool
		wantPrec := c.P
		maxUlp := int64(1)
		var desc string
		if c.Op == "setfloat64" {
			f := math.Float64frombits(c.Bits)
			desc = "SetFloat64(" + big.NewFloat(0).SetMode(big.ToNearestEven).String() + ")"
			if math.IsNaN(f) {
				if !h.CatchNaN(func() { z.SetFloat64(f) }) {
					return h.Failf("nan", "SetFloat64(NaN) did not panic with ErrNaN")
				}
				if r := h.Read(z); r.Malformed != "" {
					return h.Failf("malformed", "receiver after ErrNaN: %v", r)
				}
				o.Label("NaN")
				return nil
			}
			z.SetFloat64(f)
			neg, isInf, isZero = math.Signbit(f), math.IsInf(f, 0), f == 0
			if !isInf && !isZero {
				exactRat, _ = new(big.Float).SetFloat64(f).Rat(nil)
			}
			if wantPrec == 0 {
				wantPrec = 17
			}
			desc = "SetFloat64(" + big.NewFloat(f).Text('g', 20) + ")"
			if !isInf && !isZero && math.Abs(f) < 2.2250738585072014e-308 {
				o.Label("subnormal")
				o.NonTrivial()
			}
		} else {
			f := c.bigFloat()
			// (milliseconds at most for what is generated here; an implementation that leaves its exact path for a short
			// value carried at an enormous precision works at hundreds of millions of digits and does not come back)
			if !h.Returns(120*time.Second, func() { z.SetFloat(f) }) {
				return h.Failf("no-return", "SetFloat of a %d-bit big.Float (%d significant bits, binary exponent %d) into a receiver of precision %d has not returned after 120 s", f.Prec(), f.MinPrec(), f.MantExp(nil), c.P)
			}
			neg, isInf, isZero = f.Signbit(), f.IsInf(), f.Sign() == 0 && !f.IsInf()
			if !isInf && !isZero {
				exactRat, _ = f.Rat(nil)
			}
			if wantPrec == 0 {
				wantPrec = uint(h.CeilLog10_2(uint64(f.Prec())))
			}
			maxUlp = 64
			desc = "SetFloat(" + f.Text('g', 30) + ")"
		}
		got := h.Read(z)
		if got.Malformed != "" {
			return h.Failf("malformed", "%s: %v", desc, got)
		}
		if got.Neg != neg {
			return h.Failf("sign", "%s: sign not preserved: %v", desc, got.Val())
		}
		if got.Prec != wantPrec && !(isZero || isInf) || got.Mode != c.M {
			return h.Failf("attrs", "%s into precision %d: receiver precision %d mode %v, want %d %v", desc, c.P, got.Prec, model.Mode(got.Mode), wantPrec, model.Mode(c.M))
		}
		if isInf || isZero {
			o.Label("special")
			o.NonTrivial()
			if isInf != (got.Form == model.Inf) || isZero != (got.Form == model.Zero) {
				return h.Failf("special", "%s = %v", desc, got.Val())
			}
			return nil
		}
		ex := model.FromRat(exactRat, 0)
		if ex.Sticky {
			return h.Failf("INFRA-model", "binary value without terminating expansion")
		}
		if uint(len(ex.Digits)) <= wantPrec {
			o.Label("fits")
			if !got.Val().Equal(ex.Val) {
				return h.Failf("exact", "%s at precision %d: expansion %v (%d digits) fits but stored %v", desc, wantPrec, ex.Val, len(ex.Digits), got.Val())
			}
			return nil
		}
		o.Label("inexact")
		o.NonTrivial()
		want, _ := model.Round(ex, uint64(wantPrec), model.Mode(c.M))
		dist := model.UlpDistance(got.Val(), want, uint64(wantPrec))
		if dist.Sign() != 0 {
			o.Label("not-correctly-rounded-but-within-tolerance")
		}
		if dist.Cmp(new(big.Rat).SetInt64(maxUlp)) > 0 {
			fl, _ := dist.Float64()
			return h.Failf("ulp", "%s at precision %d %v: stored %v, correctly rounded %v: %.4g ulp apart (allowed %d)", desc, wantPrec, model.Mode(c.M), got.Val(), want, fl, maxUlp)
		}
		return nil
	case "float64f", "float32f":
		// faithful rounding: the returned float is one of the two floats enclosing x (or x itself)
		x := c.X.Build()
		xv := c.X.Val()
		var gf float64
		var gacc decimal.Accuracy
		if c.Op == "float64f" {
			gf, gacc = x.Float64()
		} else {
			var f32 float32
			f32, gacc = x.Float32()
			gf = float64(f32)
		}
		if math.Signbit(gf) != xv.Neg {
			return h.Failf("sign", "%s(%v) = %v", c.Op, xv, gf)
		}
		if xv.Form == model.Finite && xv.Exp <= 400 && xv.Exp >= -400 && !math.IsInf(gf, 0) {
			// whichever neighbour was returned, the accuracy is the sign of (returned - x): also inside the zone of
			// known finding F-10 (all integers between 2^53 and 10^16 that no float64 holds are midpoints)
			if want := decimal.Accuracy(new(big.Rat).SetFloat64(gf).Cmp(model.ToRat(xv))); gacc != want {
				return h.Failf("accuracy", "%s(%v) = %v with accuracy %v, sign(returned - x) = %v", c.Op, xv, gf, gacc, want)
			}
		}
		if f := floatModeIndependent(c); f != nil {
			return f
		}
		if xv.Form != model.Finite || xv.Exp > 400 || xv.Exp < -400 {
			return nil
		}
		o.NonTrivial()
		r := model.ToRat(xv)
		var lo, hi float64
		if c.Op == "float64f" {
			n, _ := r.Float64()
			lo, hi = math.Nextafter(n, math.Inf(-1)), math.Nextafter(n, math.Inf(1))
		} else {
			n, _ := r.Float32()
			lo, hi = float64(math.Nextafter32(n, float32(math.Inf(-1)))), float64(math.Nextafter32(n, float32(math.Inf(1))))
		}
		// gf must lie in [lo, hi] and on the correct side: no float strictly between gf and x
		if gf < lo || gf > hi {
			return h.Failf("faithful", "%s(%v) = %v, not adjacent to x (nearest neighbours %v .. %v)", c.Op, xv, gf, lo, hi)
		}
		if !math.IsInf(gf, 0) {
			g := new(big.Rat).SetFloat64(gf)
			n64 := lo
			_ = n64
			var nearest float64
			if c.Op == "float64f" {
				nearest, _ = r.Float64()
			} else {
				n32, _ := r.Float32()
				nearest = float64(n32)
			}
			if gf != nearest && !math.IsInf(nearest, 0) {
				// the other candidate must be on the other side of x
				nr := new(big.Rat).SetFloat64(nearest)
				if (g.Cmp(r) < 0) == (nr.Cmp(r) < 0) && nr.Cmp(r) != 0 {
					return h.Failf("faithful", "%s(%v) = %v: a float (%v) lies between it and x", c.Op, xv, gf, nearest)
				}
			}
		}
		return nil
	case "float64", "float32":
		if c.Pre != nil {
			o.Label("preceded-by-another-conversion")
			if c.Op == "float64" {
				c.Pre.Build().Float64()
			} else {
				c.Pre.Build().Float32()
			}
		}
		x := c.X.Build()
		xv := c.X.Val()
		before := h.Read(x)
		var gf float64
		var ga decimal.Accuracy
		maxF, minF := math.MaxFloat64, math.SmallestNonzeroFloat64
		if c.Op == "float64" {
			gf, ga = x.Float64()
		} else {
			f32, a := x.Float32()
			gf, ga = float64(f32), a
			maxF, minF = math.MaxFloat32, math.SmallestNonzeroFloat32
		}
		if after := h.Read(x); !after.SameAll(before) {
			return h.Failf("operand-modified", "%s changed x: %v -> %v", c.Op, before, after)
		}
		if math.Signbit(gf) != xv.Neg {
			return h.Failf("sign", "%s(%v) = %v", c.Op, xv, gf)
		}
		if f := floatModeIndependent(c); f != nil {
			return f
		}
		switch xv.Form {
		case model.Zero:
			if gf != 0 || ga != 0 {
				return h.Failf("special", "%s(%v) = (%v, %v)", c.Op, xv, gf, ga)
			}
			return nil
		case model.Inf:
			if !math.IsInf(gf, 0) || ga != 0 {
				return h.Failf("special", "%s(%v) = (%v, %v)", c.Op, xv, gf, ga)
			}
			return nil
		}
		var wf float64
		var wacc model.Acc
		switch {
		case xv.Exp > 400:
			wf = math.Inf(1)
			wacc = model.Above
			if xv.Neg {
				wf, wacc = math.Inf(-1), model.Below
			}
			o.Label("saturates")
		case xv.Exp < -400:
			wf, wacc = 0, model.Below
			if xv.Neg {
				wf, wacc = math.Copysign(0, -1), model.Above
			}
			o.Label("saturates")
		default:
			r := model.ToRat(xv)
			abs := new(big.Rat).Abs(r)
			var exact bool
			if c.Op == "float64" {
				wf, exact = r.Float64()
			} else {
				f32, e := r.Float32()
				wf, exact = float64(f32), e
			}
			if wf == 0 && xv.Neg {
				wf = math.Copysign(0, -1)
			}
			wacc = model.Exact
			if !exact {
				wacc = ratAccuracy(wf, r)
				o.Label("inexact")
				o.NonTrivial()
			}
			// razor zones where "nearest" and the documented saturation rule disagree: both accepted
			maxR := new(big.Rat).SetFloat64(maxF)
			minR := new(big.Rat).SetFloat64(minF)
			if abs.Cmp(maxR) > 0 && !math.IsInf(wf, 0) {
				o.Label("zone:above-max-below-half-ulp")
				if math.IsInf(gf, 0) {
					// the documented saturation: sign and accuracy must be those of an overflow
					if want := map[bool]model.Acc{false: model.Above, true: model.Below}[xv.Neg]; math.Signbit(gf) != xv.Neg || model.Acc(ga) != want {
						return h.Failf("acc", "%s(%v) = (%v, %v): saturation beyond the largest float must be (%sInf, %v)", c.Op, xv, gf, model.Acc(ga), map[bool]string{false: "+", true: "-"}[xv.Neg], want)
					}
					return nil
				}
			}
			if abs.Cmp(minR) < 0 && wf != 0 {
				o.Label("zone:below-smallest-above-half")
				if gf == 0 {
					if want := map[bool]model.Acc{false: model.Below, true: model.Above}[xv.Neg]; math.Signbit(gf) != xv.Neg || model.Acc(ga) != want {
						return h.Failf("acc", "%s(%v) = (%v, %v): saturation below the smallest float must be a zero of x's sign with accuracy %v", c.Op, xv, gf, model.Acc(ga), want)
					}
					return nil
				}
			}
			if math.IsInf(wf, 0) || wf == 0 || math.Abs(wf) < minF*(1<<52) && c.Op == "float64" || math.Abs(wf) < minF*(1<<23) && c.Op == "float32" {
				o.Label("subnormal-or-saturating")
				o.NonTrivial()
			}
		}
		if math.Float64bits(gf) != math.Float64bits(wf) {
			return h.Failf("nearest", "%s(%v) = %v (%#x), nearest is %v (%#x)", c.Op, xv, gf, math.Float64bits(gf), wf, math.Float64bits(wf))
		}
		if model.Acc(ga) != wacc {
			return h.Failf("acc", "%s(%v) = %v with accuracy %v, sign(returned - x) is %v", c.Op, xv, gf, model.Acc(ga), wacc)
		}
		return nil
	case "floatx":
		x := c.X.Build()
		xv := c.X.Val()
		f := x.Float(new(big.Float).SetPrec(c.FP))
		if f.Prec() != c.FP || f.Signbit() != xv.Neg || f.IsInf() || f.Sign() == 0 {
			return h.Failf("range", "Float(%v) at %d bits = %s (precision %d)", xv, c.FP, f.Text('p', 0), f.Prec()) // ('p': a decimal rendering of 2^(2e9) takes minutes)
		}
		o.NonTrivial()
		// reference: digits x 10^(exp-len) in 900-bit binary arithmetic (the power of ten by squaring)
		const wp = 900
		m, _ := new(big.Int).SetString(xv.Digits, 10)
		ref := new(big.Float).SetPrec(wp).SetInt(m)
		e := xv.Exp - int64(len(xv.Digits))
		n := e
		if n < 0 {
			n = -n
		}
		pow := new(big.Float).SetPrec(wp).SetInt64(1)
		base := new(big.Float).SetPrec(wp).SetInt64(10)
		for k := n; k > 0; k >>= 1 {
			if k&1 == 1 {
				pow.Mul(pow, base)
			}
			if k > 1 {
				base.Mul(base, base)
			}
		}
		if e >= 0 {
			ref.Mul(ref, pow)
		} else {
			ref.Quo(ref, pow)
		}
		if xv.Neg {
			ref.Neg(ref)
		}
		if ref.IsInf() || ref.Sign() == 0 || pow.IsInf() {
			o.Label("floatx:beyond-big.Float-range")
			return nil
		}
		diff := new(big.Float).SetPrec(wp).Sub(f, ref)
		diff.Abs(diff)
		ulp := new(big.Float).SetPrec(wp).SetMantExp(big.NewFloat(1), f.MantExp(nil)-int(c.FP))
		if diff.Cmp(new(big.Float).SetPrec(wp).Mul(ulp, big.NewFloat(64))) > 0 {
			q, _ := new(big.Float).Quo(diff, ulp).Float64()
			return h.Failf("ulp", "Float(%v) at %d bits = %s: %.4g binary ulp away from the value", xv, c.FP, f.Text('p', 0), q)
		}
		return nil
	case "float":
		x := c.X.Build()
		xv := c.X.Val()
		var dst *big.Float
		if c.FP > 0 || c.DK == "+inf" || c.DK == "-inf" {
			// the destination's previous contents (of any kind) must not show through; a destination of
			// precision 0 takes the default precision
			dst = new(big.Float).SetPrec(c.FP)
			switch c.DK {
			case "":
				dst.SetInt64(-3)
			case "+inf":
				dst.SetInf(false)
			case "-inf":
				dst.SetInf(true)
			case "big":
				if c.FP > 0 {
					dst.SetMantExp(new(big.Float).SetPrec(c.FP).SetFloat64(-1.75), 1<<30) // (SetMantExp copies the mantissa's precision)
				}
			case "tiny":
				if c.FP > 0 {
					dst.SetMantExp(new(big.Float).SetPrec(c.FP).SetFloat64(1.25), -(1 << 30))
				}
			}
			o.Label("float-dst:" + c.DK)
		}
		f := x.Float(dst)
		if f == nil || dst != nil && f != dst {
			return h.Failf("api", "Float did not return its destination")
		}
		if f.Signbit() != xv.Neg {
			return h.Failf("sign", "Float(%v) = %v", xv, f)
		}
		switch xv.Form {
		case model.Zero:
			if f.Sign() != 0 || f.IsInf() {
				return h.Failf("special", "Float(%v) = %v", xv, f)
			}
			return nil
		case model.Inf:
			if !f.IsInf() {
				return h.Failf("special", "Float(%v) = %v", xv, f)
			}
			return nil
		}
		if f.IsInf() || f.Sign() == 0 {
			return h.Failf("range", "Float(%v) = %v", xv, f)
		}
		o.NonTrivial()
		prec := f.Prec()
		wantp := uint(h.CeilLog2_10(uint64(c.X.P)))
		if wantp < 64 {
			wantp = 64
		}
		if c.FP > 0 && prec != c.FP || c.FP == 0 && prec != wantp {
			return h.Failf("attrs", "Float(%v) (precision %d) into a destination of precision %d: result precision %d (documented max(ceil(x.Prec()*log2(10)), 64) = %d)", xv, c.X.P, c.FP, prec, wantp)
		}
		r := model.ToRat(xv)
		fr, _ := f.Rat(nil)
		diff := new(big.Rat).Sub(fr, r)
		diff.Abs(diff)
		// one binary ulp at f's precision: 2^(exp - prec)
		ulp := new(big.Rat).SetInt64(1)
		e := f.MantExp(nil) - int(prec)
		if e >= 0 {
			ulp.SetInt(new(big.Int).Lsh(big.NewInt(1), uint(e)))
		} else {
			ulp.SetFrac(big.NewInt(1), new(big.Int).Lsh(big.NewInt(1), uint(-e)))
		}
		if diff.Cmp(new(big.Rat).Mul(ulp, big.NewRat(64, 1))) > 0 {
			q, _ := new(big.Rat).Quo(diff, ulp).Float64()
			return h.Failf("ulp", "Float(%v) at %d bits = %v: %.4g binary ulp away", xv, prec, f.Text('g', 40), q)
		}
		return nil
	}
	return h.Failf("bad-case", "op %q", c.Op)
}

// floatModeIndependent: Float64/Float32 are functions of x's value ("the value nearest to x"): the rounding mode
// x carries for its own arithmetic must not change what they return. Holds inside the known-finding zone too.
func floatModeIndependent(c C15Case) *h.Fail {
	var bits [6]uint64
	var accs [6]decimal.Accuracy
	for m := uint8(0); m < 6; m++ {
		s := c.X
		s.M = m
		x := s.Build()
		if c.Op[:7] == "float64" {
			f, a := x.Float64()
			bits[m], accs[m] = math.Float64bits(f), a
		} else {
			f, a := x.Float32()
			bits[m], accs[m] = uint64(math.Float32bits(f)), a
		}
		if bits[m] != bits[0] || accs[m] != accs[0] {
			return h.Failf("mode-dependent", "%s(%v) returns (%#x, %v) when x's mode is %v but (%#x, %v) when it is %v", c.Op[:7], c.X.Val(), bits[0], accs[0], model.Mode(0), bits[m], accs[m], model.Mode(m))
		}
	}
	return nil
}

// checkSetFloatExtreme: x = m*2^e with e near +-2^31. The exact decimal expansion is out of reach (hundreds of
// millions of digits); instead both x and the stored Decimal are scaled by the same power of ten into the
// ordinary range and compared there with 600-bit binary arithmetic (error far below one unit of the comparison).
func checkSetFloatExtreme(c C15Case, o *h.Obs, z *decimal.Decimal) *h.Fail {
	m := bigOf(c.FM)
	x := new(big.Float).SetPrec(c.FP).SetMode(big.ToZero).SetInt(m)
	if x.Acc() != big.Exact {
		return h.Failf("INFRA-oracle", "mantissa does not fit %d bits", c.FP)
	}
	x.SetMantExp(x, c.FE)
	if x.IsInf() || x.Sign() == 0 {
		o.Label("setfloatx:beyond-big.Float-range")
		return nil
	}
	z.SetFloat(x)
	got := h.Read(z)
	if got.Malformed != "" {
		return h.Failf("malformed", "SetFloat(m*2^%d): %v", c.FE, got)
	}
	o.NonTrivial()
	wantPrec := c.P
	if wantPrec == 0 {
		wantPrec = uint(h.CeilLog10_2(uint64(c.FP)))
	}
	if got.Form != model.Finite || got.Neg != (m.Sign() < 0) {
		return h.Failf("class", "SetFloat(%s * 2^%d) (a finite value of about 10^%d) = %v", h.FirstN(c.FM, 40), c.FE, int64(float64(c.FE+m.BitLen())*0.30103), got.Val())
	}
	if got.Prec != wantPrec {
		return h.Failf("attrs", "precision %d want %d", got.Prec, wantPrec)
	}
	// k = decimal exponent of the stored value; compare x*10^-k with stored*10^-k = 0.digits
	k := got.Exp
	const wp = 600
	t := new(big.Float).SetPrec(wp).Set(x)
	pow10f := func(n int64) *big.Float { // 10^n by squaring (about 30 multiplications), n >= 0
		pow := new(big.Float).SetPrec(wp).SetInt64(1)
		base := new(big.Float).SetPrec(wp).SetInt64(10)
		for n > 0 {
			if n&1 == 1 {
				pow.Mul(pow, base)
			}
			n >>= 1
			if n > 0 {
				base.Mul(base, base)
			}
		}
		return pow
	}
	n := k
	if n < 0 {
		n = -n
	}
	// 10^|k| itself is at the edge of big.Float's range: scale in two halves
	for _, part := range []int64{n / 2, n - n/2} {
		pw := pow10f(part)
		if pw.IsInf() {
			return h.Failf("INFRA-oracle", "scaling factor overflow")
		}
		if k > 0 {
			t.Quo(t, pw)
		} else {
			t.Mul(t, pw)
		}
	}
	// stored*10^-k as a big.Float
	sd, _ := new(big.Int).SetString(got.Digits, 10)
	st := new(big.Float).SetPrec(wp).SetInt(sd)
	st.Quo(st, new(big.Float).SetPrec(wp).SetInt(new(big.Int).Exp(big.NewInt(10), big.NewInt(int64(len(got.Digits))), nil)))
	if got.Neg {
		st.Neg(st)
	}
	diff := new(big.Float).SetPrec(wp).Sub(st, t)
	diff.Abs(diff)
	// one unit in the wantPrec-th digit of 0.digits is 10^-wantPrec; allow 64 of them (+1 for the oracle's own error)
	tol := new(big.Float).SetPrec(wp).SetInt64(65)
	tol.Quo(tol, new(big.Float).SetPrec(wp).SetInt(new(big.Int).Exp(big.NewInt(10), big.NewInt(int64(wantPrec)), nil)))
	if diff.Cmp(tol) > 0 {
		return h.Failf("ulp", "SetFloat(%s * 2^%d) at precision %d: stored %v; scaled by 10^%d the binary value is %s, the stored one %s", h.FirstN(c.FM, 40), c.FE, wantPrec, got.Val(), -k, t.Text('g', 40), st.Text('g', 40))
	}
	return nil
}

const ruleC15 = "rapid-generated cases. SetFloat64: float64 bit patterns (uniform bits, subnormals, extremes, powers of two, small integers and dyadic fractions, NaN payloads, +-Inf, +-0) x receiver precision {0, 1-6, 15-19, 1-120, 700-800 (holds every expansion)} x modes x previous receiver contents: sign kept, +-0/+-Inf mapped to themselves, NaN => ErrNaN, exact when the expansion fits, else within 1 ulp of the correctly rounded value. SetFloat: big.Float of precision 1..2000 bits, exponents to +-3000 (quick) / +-30000 (thorough), +-0, +-Inf: same, tolerance 64 ulp. SetFloat at the ends of big.Float's own exponent range (binary exponent within 400 of +-2^31, mantissas with the top and often the lowest bit set, precisions around 64): the stored value must be finite, of the right sign, and within 64 units of the binary value when both are scaled into the ordinary range with 600-bit arithmetic. Float64/Float32: Decimals exactly halfway between two adjacent floats and halfway +- 10^-k (built from the float), exact expansions of floats (must come back bit for bit), values around MaxFloat / SmallestNonzero / the smallest normal, generic values with exponents inside and far outside the range: the returned bits must equal big.Rat.Float64/Float32 of the exact rational (correctly rounded, ties to even), accuracy == sign(returned - x), saturation to +-Inf / +-0; in the two razor zones where 'nearest' and the documented saturation rule disagree ((Max, Max+half ulp) and (Smallest/2, Smallest)) both answers are accepted and counted. Exact floats followed by zeros and one stray digit 1 .. 140 000 digits below (value unchanged, accuracy by the digit's sign); pairs of conversions whose powers of five differ by exactly 2^8 .. 2^17 (the second, of up to 131 000 digits, is checked: nothing remembered from one conversion may leak into the next). While the known finding F-10 (double rounding) is listed, float64/float32 cases whose value lies within 2^-6 / 2^-3 ulp of a float or of a midpoint are excluded by an input predicate and counted, and the same inputs are also run under a weaker oracle that holds there too (float64f/float32f: the result is one of the two floats enclosing x, sign preserved, accuracy == sign(returned - x) for whichever neighbour was returned). Float: within 64 binary ulps at the destination's precision, sign and specials preserved, |exp| <= 5000; and (floatx) values of up to 60 digits with decimal exponents up to +-6.4e8, the limit of big.Float's own range, compared with digits x 10^e evaluated in 900-bit binary arithmetic (power of ten by squaring), same tolerance. Non-trivial = inexact conversion, halfway-adjacent input, subnormal or saturating result."

// floatNearMidpoint: x lies within 2^-6 (Float64) / 2^-3 (Float32) of the gap between two adjacent floats from
// their midpoint: the zone where rounding through the intermediate 64/32-bit big.Float first (itself off by a few
// units, Float being naive) can pick the other neighbour (known finding F-10). The returned accuracy is checked
// everywhere else, including for x that are floats or next to one.
func floatNearMidpoint(c C15Case) bool {
	if c.Op != "float64" && c.Op != "float32" || c.X.F != "f" || c.X.E > 400 || c.X.E < -400 {
		return false
	}
	r := model.ToRat(c.X.Val())
	r.Abs(r)
	var f, up, down float64
	zoneBits := 6
	if c.Op == "float64" {
		f, _ = r.Float64()
		up, down = math.Nextafter(f, math.Inf(1)), math.Nextafter(f, 0)
	} else {
		f32, _ := r.Float32()
		f, up, down = float64(f32), float64(math.Nextafter32(f32, float32(math.Inf(1)))), float64(math.Nextafter32(f32, 0))
		zoneBits = 3
	}
	if math.IsInf(f, 0) {
		return false
	}
	fr := new(big.Rat).SetFloat64(f)
	near := func(a, b float64) bool { // is r within zone*(b-a) of (a+b)/2 ?
		ar, br := new(big.Rat).SetFloat64(a), new(big.Rat).SetFloat64(b)
		gap := new(big.Rat).Sub(br, ar)
		mid := new(big.Rat).Add(ar, br)
		mid.Quo(mid, big.NewRat(2, 1))
		d := new(big.Rat).Sub(r, mid)
		d.Abs(d)
		d.Quo(d, gap)
		return d.Cmp(new(big.Rat).SetFrac(big.NewInt(1), new(big.Int).Lsh(big.NewInt(1), uint(zoneBits)))) < 0
	}
	if math.IsInf(up, 0) {
		// above the largest finite float: the midpoint to the (virtual) next binade
		gap := new(big.Rat).Sub(fr, new(big.Rat).SetFloat64(down))
		mid := new(big.Rat).Add(fr, new(big.Rat).Quo(gap, big.NewRat(2, 1)))
		d := new(big.Rat).Sub(r, mid)
		d.Abs(d)
		d.Quo(d, gap)
		if d.Cmp(new(big.Rat).SetFrac(big.NewInt(1), new(big.Int).Lsh(big.NewInt(1), uint(zoneBits)))) < 0 {
			return true
		}
	} else if near(f, up) {
		return true
	}
	return f != 0 && near(down, f)
}

var propC15 = &h.Prop[C15Case]{ID: "C15", Rule: ruleC15, Gen: genC15, Check: checkC15, Matchers: map[string]func(C15Case) bool{"float-near-rounding-boundary": floatNearMidpoint}}

func TestC15(t *testing.T)       { propC15.Search(t) }
func TestC15Replay(t *testing.T) { propC15.Replay(t) }

// TestC15Grid: Float64 of F - 10^-n and F + 10^-n for one exactly representable F and EVERY n from 20 to 9000 and every third n up to 12000 (quick; thorough: every n to 20000): the value must come back as F and the
// accuracy must say Above resp. Below, however many digits lie between F and the stray digit. (The conversion's
// internal error grows with n and is irregular in n; an accuracy derived from an intermediate result goes wrong at
// isolated n only.)
func TestC15Grid(t *testing.T) {
	defer h.WriteStats("C15")
	max, dense := 12000, 9000
	if h.Thorough() {
		max, dense = 20000, 20000
	}
	const F = 3221225472 // 3 * 2^30
	cnt := 0
	for n := 20; n <= max; n++ { // (from 20: closer to F than any neighbouring float by far)
		if n > dense && n%3 != 0 {
			continue
		}
		for _, below := range []bool{true, false} {
			var d string
			if below {
				d = "3221225471" + strings.Repeat("9", n) // F - 10^-n
			} else {
				d = "3221225472" + strings.Repeat("0", n-1) + "1"
			}
			x := h.Spec{F: "f", D: d, E: 10, P: uint(len(d)), M: uint8(n % 6)}.Build()
			f, acc := x.Float64()
			want := decimal.Below
			if below {
				want = decimal.Above
			}
			if f != F || acc != want {
				c := C15Case{Op: "float64", X: h.Spec{F: "f", D: d, E: 10, P: uint(len(d)), M: uint8(n % 6)}}
				h.ReportGridFail(t, "C15", h.Failf("acc", "Float64(%d %s 10^-%d) = (%v, %v), want (%d, %v)", F, map[bool]string{true: "-", false: "+"}[below], n, f, acc, F, want), mustJSON(c))
			}
			cnt++
		}
	}
	h.AddExtra("C15", "stray_digit_depth_sweep_cases", cnt)
	c15ShortDecimalSweep(t)
	c15SetFloatIntoMaxPrec(t)
}

// c15SetFloatIntoMaxPrec: SetFloat of 1.5 x 2^(+-(2^20+70)) into a receiver of precision MaxPrec: the conversion is
// exact (every binary float is a finite decimal), the receiver keeps precision MaxPrec and its mode. The only receiver
// precision at which a temporary prec+1 does not fit, and exponents beyond any size at which an implementation might
// stop converting exactly. Oracle: math/big integers (3 * 2^2^20, resp. 3 * 5^(2^20+2) scaled). The negative exponent
// costs about 9 s and runs in the thorough tier only.
func c15SetFloatIntoMaxPrec(t *testing.T) {
	es := []int{1<<20 + 70}
	if h.Thorough() {
		es = append(es, -(1<<20 + 70))
	}
	for _, e := range es {
		f := new(big.Float).SetMantExp(big.NewFloat(1.5), e) // 3 * 2^(e-1)
		z := new(decimal.Decimal).SetPrec(decimal.MaxPrec).SetMode(decimal.ToZero)
		{
			// (2 s / 9 s normally. An implementation that leaves its exact path here works at four billion digits and
			// does not come back: 150 s of wall-clock time and 75 s of CPU time of this process are the limit, as in C05)
			done := make(chan interface{}, 1)
			go func() {
				defer func() { done <- recover() }()
				z.SetFloat(f)
			}()
			start, cpu0 := time.Now(), processCPU()
			tick := time.NewTicker(500 * time.Millisecond)
		wait:
			for {
				select {
				case r := <-done:
					tick.Stop()
					if r != nil {
						panic(r)
					}
					break wait
				case <-tick.C:
					if time.Since(start) >= 150*time.Second && processCPU()-cpu0 >= 75*time.Second {
						tick.Stop()
						h.ReportGridFail(t, "C15", h.Failf("no-return", "SetFloat(3*2^%d) into a receiver of precision MaxPrec has not returned after %v", e-1, time.Since(start).Round(time.Second)), mustJSON(C15Case{Op: "setfloat", FM: "3", FE: e - 1, FP: 53, P: decimal.MaxPrec, M: uint8(decimal.ToZero)}))
					}
				}
			}
		}
		var wantDigits string
		var wantExp int64
		if e > 0 {
			v := new(big.Int).Lsh(big.NewInt(3), uint(e-1))
			wantDigits = v.String()
			wantExp = int64(len(wantDigits))
		} else {
			// 3 / 2^k = 3 * 5^k / 10^k with k = 1 - e
			k := int64(1 - e)
			v := new(big.Int).Exp(big.NewInt(5), big.NewInt(k), nil)
			v.Mul(v, big.NewInt(3))
			wantDigits = v.String()
			wantExp = int64(len(wantDigits)) - k
		}
		wantDigits = strings.TrimRight(wantDigits, "0")
		got := h.Read(z)
		c := C15Case{Op: "setfloat", FM: "3", FE: e - 1, FP: 53, P: decimal.MaxPrec, M: uint8(decimal.ToZero)}
		o := &h.Obs{}
		o.Label("setfloat-into-maxprec")
		o.NonTrivial()
		switch {
		case got.Malformed != "":
			h.ReportGridFail(t, "C15", h.Failf("malformed", "SetFloat(3*2^%d) at precision MaxPrec: %v", e-1, got.Malformed), mustJSON(c))
		case got.Prec != decimal.MaxPrec || got.Mode != uint8(decimal.ToZero):
			h.ReportGridFail(t, "C15", h.Failf("attributes", "SetFloat(3*2^%d) into a receiver of precision MaxPrec, ToZero: precision %d, mode %v afterwards", e-1, got.Prec, model.Mode(got.Mode)), mustJSON(c))
		case got.Form != model.Finite || got.Neg || got.Digits != wantDigits || got.Exp != wantExp || model.Acc(got.Acc) != model.Exact:
			h.ReportGridFail(t, "C15", h.Failf("value", "SetFloat(3*2^%d) at precision MaxPrec: %d digits, exponent %d, accuracy %v (first digits %s); want the exact value: %d digits, exponent %d (first digits %s)", e-1, len(got.Digits), got.Exp, model.Acc(got.Acc), h.FirstN(got.Digits, 30), len(wantDigits), wantExp, h.FirstN(wantDigits, 30)), mustJSON(c))
		}
		h.RecordGrid("C15", o, c)
	}
}

// c15ShortDecimalSweep: Float64 of w x 10^e for 5..16-digit integers w and decimal exponents over -45..-1 and 15..44
// (the region around the classic exact-conversion window |e| <= 22 (+15), where conversions switch algorithms) against
// strconv.ParseFloat of the same literal, which is correctly rounded. An enumerated sweep on all cores: the values come
// from a fixed multiplicative sequence, not from a random source. Returned accuracy = sign(returned - x), from math/big.
// Inside the zone of known finding F-10 (x next to the midpoint of two floats) the other neighbour is accepted.
func c15ShortDecimalSweep(t *testing.T) {
	total := 1500000
	if h.Thorough() {
		total = 24000000
	}
	exps := []int{}
	for e := -45; e <= -1; e++ {
		exps = append(exps, e)
	}
	for r := 0; r < 3; r++ {
		for e := 15; e <= 44; e++ {
			exps = append(exps, e)
		}
	}
	workers := runtime.GOMAXPROCS(0)
	type bad struct {
		c   C15Case
		msg string
	}
	var mu sync.Mutex
	var fails []bad
	var zone, inexact int64
	var wg sync.WaitGroup
	for wk := 0; wk < workers; wk++ {
		wg.Add(1)
		go func(wk int) {
			defer wg.Done()
			x, m := new(decimal.Decimal), new(decimal.Decimal).SetPrec(19)
			v, p10 := new(big.Int), new(big.Int)
			for i := wk; i < total; i += workers {
				nd := 5 + i%12
				w := (uint64(i)*0x9E3779B97F4A7C15 + 0x632BE59BD9B4E019) % h.Pow10u(nd)
				if lo := h.Pow10u(nd - 1); w < lo {
					w += lo
				}
				e := exps[(i/12)%len(exps)]
				lit := strconv.FormatUint(w, 10) + "e" + strconv.Itoa(e)
				want, err := strconv.ParseFloat(lit, 64)
				if err != nil {
					continue
				}
				m.SetUint64(w)
				x.SetPrec(19).SetMantExp(m, e)
				got, acc := x.Float64()
				// sign(got - x) in integers: x = w*10^e
				var cmp int
				gr, _ := new(big.Float).SetFloat64(got).Rat(nil)
				if e >= 0 {
					v.Mul(v.SetUint64(w), p10.Exp(big.NewInt(10), big.NewInt(int64(e)), nil))
					cmp = gr.Cmp(new(big.Rat).SetInt(v))
				} else {
					cmp = gr.Cmp(new(big.Rat).SetFrac(v.SetUint64(w), p10.Exp(big.NewInt(10), big.NewInt(int64(-e)), nil)))
				}
				if cmp != 0 {
					atomic.AddInt64(&inexact, 1)
				}
				c := C15Case{Op: "float64", X: h.Spec{F: "f", D: strings.TrimRight(strconv.FormatUint(w, 10), "0"), E: int64(nd + e), P: 19}}
				var msg string
				switch {
				case int(acc) != cmp:
					msg = fmt.Sprintf("Float64(%s) = (%v, %v): sign(returned - x) = %d", lit, got, acc, cmp)
				case got != want:
					if floatNearMidpoint(c) && (got == math.Nextafter(want, math.Inf(1)) || got == math.Nextafter(want, math.Inf(-1))) {
						atomic.AddInt64(&zone, 1) // known finding F-10
						continue
					}
					msg = fmt.Sprintf("Float64(%s) = %v, correctly rounded (strconv.ParseFloat) %v", lit, got, want)
				default:
					continue
				}
				mu.Lock()
				fails = append(fails, bad{c, msg})
				mu.Unlock()
				return
			}
		}(wk)
	}
	wg.Wait()
	if len(fails) > 0 {
		sort.Slice(fails, func(i, j int) bool { return fails[i].msg < fails[j].msg })
		h.ReportGridFail(t, "C15", h.Failf("short-decimal", "%s", fails[0].msg), mustJSON(fails[0].c))
	}
	h.AddExtra("C15", "short_decimal_sweep_cases", total)
	h.AddExtra("C15", "short_decimal_sweep_inexact", int(inexact))
	h.AddExtra("C15", "short_decimal_sweep_in_known_zone_other_neighbour", int(zone))
}
