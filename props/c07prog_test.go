//go:build verif

package props

import (
	"bufio"
	"encoding/json"
	"fmt"
	"io"
	"os"
	"os/exec"
	"strings"
	"sync"
	"testing"

	"pgregory.net/rapid"

	"verif/h"
	"verif/sm"
)

// C07 (program half): any sequence of public operations gives identical results with the
// default build and with the decimal_pure_go / math_big_pure_go builds.

type vexecProc struct {
	name   string
	cmd    *exec.Cmd
	in     io.WriteCloser
	out    *bufio.Reader
	stderr *tailBuffer
}

var (
	vexecOnce  sync.Once
	vexecProcs []*vexecProc
	vexecErr   error
	vexecMu    sync.Mutex
)

func startOneVexec(name string) (*vexecProc, error) {
	path := os.Getenv("VERIF_VEXEC_" + name)
	if path == "" {
		return nil, fmt.Errorf("VERIF_VEXEC_%s not set", name)
	}
	cmd := exec.Command(path)
	in, _ := cmd.StdinPipe()
	out, _ := cmd.StdoutPipe()
	tail := &tailBuffer{}
	cmd.Stderr = tail
	if err := cmd.Start(); err != nil {
		return nil, err
	}
	return &vexecProc{name: strings.ToLower(name), cmd: cmd, in: in, out: bufio.NewReaderSize(out, 1<<20), stderr: tail}, nil
}

func startVexec() {
	for _, name := range []string{"ASM", "PUREGO", "PUREGO2"} {
		p, err := startOneVexec(name)
		if err != nil {
			vexecErr = err
			return
		}
		vexecProcs = append(vexecProcs, p)
	}
}

// tailBuffer keeps the last few KiB written to it (an executor's stderr).
type tailBuffer struct {
	mu sync.Mutex
	b  []byte
}

func (t *tailBuffer) Write(p []byte) (int, error) {
	t.mu.Lock()
	defer t.mu.Unlock()
	t.b = append(t.b, p...)
	if len(t.b) > 1<<14 {
		t.b = t.b[len(t.b)-1<<13:]
	}
	return len(p), nil
}

func (t *tailBuffer) String() string {
	t.mu.Lock()
	defer t.mu.Unlock()
	return string(t.b)
}

func (p *vexecProc) exec(line []byte) (string, error) {
	if _, err := p.in.Write(append(line, '\n')); err != nil {
		return "", err
	}
	s, err := p.out.ReadString('\n')
	return s, err
}

// crashed reports how a dead executor ended: crash is true when the Go runtime of the executor itself gave up
// (exit status 2 with a "fatal error" / "panic" / signal report on stderr), which is the library's doing under that
// build; anything else (killed from outside, out of memory) is the harness's problem.
func (p *vexecProc) crashed() (crash bool, report string) {
	p.in.Close()
	err := p.cmd.Wait()
	report = p.stderr.String()
	first := report
	if i := strings.Index(first, "\n\n"); i > 0 {
		first = first[:i]
	}
	first = strings.ReplaceAll(h.FirstN(first, 400), "\n", " | ")
	if ee, ok := err.(*exec.ExitError); ok && ee.ExitCode() == 2 && !strings.Contains(report, "out of memory") &&
		(strings.Contains(report, "fatal error:") || strings.Contains(report, "panic:") || strings.Contains(report, "signal SIG")) {
		return true, first
	}
	return false, fmt.Sprintf("%v: %s", err, first)
}

type C07ProgCase struct {
	Prog sm.Program `json:"prog"`
}

func progRatio() int {
	if h.Thorough() {
		return 25
	}
	return 150
}

func genC07Prog(t *rapid.T) C07ProgCase {
	// the kernel and program halves share one rapid case budget: only every n-th case carries a program
	if rapid.IntRange(0, progRatio()-1).Draw(t, "skip") != 0 {
		return C07ProgCase{}
	}
	o := sm.DefaultOpts()
	o.MaxPrec = 400
	if h.Thorough() {
		o.MaxPrec = 2500
	}
	o.MaxIntDigit = 1200
	return C07ProgCase{Prog: genProg(t, o).Prog}
}

func checkC07Prog(c C07ProgCase, o *h.Obs) *h.Fail {
	if len(c.Prog.Steps) == 0 {
		o.Label("program:skipped-slot")
		return nil
	}
	vexecOnce.Do(startVexec)
	if vexecErr != nil {
		return h.Failf("INFRA-vexec", "cannot start the executors: %v", vexecErr)
	}
	line, _ := json.Marshal(c.Prog)
	vexecMu.Lock()
	defer vexecMu.Unlock()
	outs := make([]string, len(vexecProcs))
	for i, p := range vexecProcs {
		s, err := p.exec(line)
		if err != nil {
			crash, report := p.crashed()
			// a fresh executor for the cases that follow (shrinking included)
			if np, e := startOneVexec(strings.ToUpper(p.name)); e == nil {
				vexecProcs[i] = np
			} else {
				vexecErr = e
			}
			if crash {
				return h.Failf("executor-crash", "the %s build crashed while running the program (the other builds are not asked): %s", p.name, report)
			}
			return h.Failf("INFRA-vexec", "executor %s died: %v: %s", p.name, err, report)
		}
		outs[i] = s
	}
	o.Label("program")
	o.Labelf("program:steps=%d", len(c.Prog.Steps)/10*10)
	multi := false
	for _, s := range c.Prog.Init {
		if len(s.D) > h.DW {
			multi = true
		}
	}
	for _, s := range c.Prog.Steps {
		if len(s.I) > h.DW || len(s.W) > 1 {
			multi = true
		}
	}
	if multi {
		o.NonTrivial()
	}
	for i := 1; i < len(outs); i++ {
		if outs[i] != outs[0] {
			// locate the first differing step
			var a, b struct {
				Steps []json.RawMessage `json:"steps"`
				Error string            `json:"error"`
			}
			_ = json.Unmarshal([]byte(outs[0]), &a)
			_ = json.Unmarshal([]byte(outs[i]), &b)
			for k := 0; k < len(a.Steps) && k < len(b.Steps); k++ {
				if string(a.Steps[k]) != string(b.Steps[k]) {
					return h.Failf("build-divergence", "step %d (%+v): build %s gives %s, build %s gives %s", k, c.Prog.Steps[k], vexecProcs[0].name, h.FirstN(string(a.Steps[k]), 600), vexecProcs[i].name, h.FirstN(string(b.Steps[k]), 600))
				}
			}
			return h.Failf("build-divergence", "builds %s and %s differ: %q vs %q", vexecProcs[0].name, vexecProcs[i].name, h.FirstN(a.Error, 300), h.FirstN(b.Error, 300))
		}
	}
	if strings.Contains(outs[0], `"error"`) {
		return h.Failf("INFRA-vexec", "executor error: %s", h.FirstN(outs[0], 400))
	}
	return nil
}

var propC07Prog = &h.Prop[C07ProgCase]{ID: "C07", Rule: ruleC07, Gen: genC07Prog, Check: checkC07Prog, Matchers: map[string]func(C07ProgCase) bool{},
	Filter: func(path string) bool { return strings.Contains(path, "prog-") }}

func TestC07Prog(t *testing.T) { propC07Prog.Search(t) }
