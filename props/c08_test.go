package props

import (
	"fmt"
	"math"
	"math/big"
	"strings"
	"testing"

	"github.com/db47h/decimal"

	"pgregory.net/rapid"

	"verif/h"
	"verif/model"
	"verif/sm"
)

// C08: every reachable Decimal is canonical.  C09: precision and mode are
// sticky, operands are never modified. Both run the same state machine.

type ProgCase struct {
	Prog sm.Program `json:"prog"`
}

func genProg(t *rapid.T, o sm.Opts) ProgCase {
	p := sm.Program{Init: sm.GenInit(t, o)}
	m := sm.NewMachine(p.Init)
	n := rapid.IntRange(1, 60).Draw(t, "nsteps")
	for i := 0; i < n; i++ {
		if o.Prec0Bias && rapid.IntRange(0, 9).Draw(t, "prec0") < 3 {
			s := sm.Step{Op: "setprec", Z: rapid.IntRange(0, len(m.V)-1).Draw(t, "prec0.z"), P: 0}
			p.Steps = append(p.Steps, s)
			m.Do(s)
		}
		s := sm.Draw(t, m, o)
		p.Steps = append(p.Steps, s)
		m.Do(s)
	}
	return ProgCase{Prog: p}
}

func stepString(i int, s sm.Step) string {
	return fmt.Sprintf("step %d: %s z=v%d a=%v %s", i, s.Op, s.Z, s.A, h.FirstN(fmt.Sprintf("%+v", s), 300))
}

func nearEdge(s h.Snap) bool {
	return s.Form == model.Finite && (s.Exp > model.MaxExp-60 || s.Exp < model.MinExp+60)
}

// c08UnaryOracle states the exact outcome of Set/Neg/Abs/SetPrec/SetMantExp steps.
func c08UnaryOracle(s sm.Step, zBefore, x, zAfter h.Snap) *h.Fail {
	var want model.Val
	switch s.Op {
	case "set", "neg", "abs":
		p := zBefore.Prec
		if p == 0 {
			p = x.Prec
		}
		if s.A[0] == s.Z || p == 0 {
			return nil // z.Set(z) does not round; precision 0 only with non-finite values
		}
		want = model.SetVal(x.Val(), uint64(p), model.Mode(zBefore.Mode)).V
		if s.Op == "neg" {
			want = want.Negate()
		} else if s.Op == "abs" {
			want = want.AbsVal()
		}
	case "setprec":
		if s.P == 0 {
			want = zBefore.Val()
			if want.Form == model.Finite {
				want = model.MkZero(want.Neg)
			}
		} else {
			want = model.SetVal(zBefore.Val(), uint64(s.P), model.Mode(zBefore.Mode)).V
		}
	case "setmantexp":
		v := x.Val()
		if v.Form == model.Finite {
			off := s.Exp // clamp: the model's exponent is an int64 as well
			if off > 1<<40 {
				off = 1 << 40
			} else if off < -1<<40 {
				off = -1 << 40
			}
			v.Exp += off
			if x.Prec == 0 {
				return nil
			}
			v, _ = model.Round(model.X{Val: v}, uint64(x.Prec), model.Mode(x.Mode))
		}
		want = v
	default:
		return nil
	}
	if !zAfter.Val().Equal(want) {
		return h.Failf("unary-value", "receiver %v, operand %v: got %v, exact rounding gives %v", zBefore, x, zAfter.Val(), want)
	}
	return nil
}

func checkC08(c ProgCase, o *h.Obs) *h.Fail {
	m := sm.NewMachine(c.Prog.Init)
	var rounding, aliasing, edge, decode bool
	for i, s := range c.Prog.Steps {
		before := h.Read(m.V[s.Z])
		var opBefore h.Snap
		if len(s.A) > 0 {
			opBefore = h.Read(m.V[s.A[0]])
		}
		out := m.Do(s)
		o.Label("op:" + s.Op)
		if out.Panic != nil {
			return h.Failf("panic", "%s panicked with %T: %v", stepString(i, s), out.Panic, out.Panic)
		}
		// results that leave the range are +-0 or +-Inf, never a wrapped finite value: for the
		// single-operand roundings the exact outcome is cheap to state (reference rounding + range rule)
		if f := c08UnaryOracle(s, before, opBefore, h.Read(m.V[s.Z])); f != nil {
			return h.Failf(f.Class, "%s: %s", stepString(i, s), f.Msg)
		}
		if out.NaN {
			o.Label("ErrNaN-step")
		}
		if out.Rejects {
			o.Label("rejected:" + s.Op)
		}
		if out.Note != "" {
			return h.Failf("api", "%s: %s", stepString(i, s), out.Note)
		}
		snaps := make([]h.Snap, len(m.V))
		for j := range m.V {
			snaps[j] = h.Read(m.V[j])
			if snaps[j].Malformed != "" {
				return h.Failf("malformed", "after %s (NaN=%v rejected=%v): v%d = %v", stepString(i, s), out.NaN, out.Rejects, j, snaps[j])
			}
		}
		z := snaps[s.Z]
		if z.Acc != 0 {
			rounding = true
		}
		for _, a := range s.A {
			if a == s.Z {
				aliasing = true
			}
		}
		if nearEdge(z) || before.Form == model.Finite && z.Form != model.Finite && z.Acc != 0 {
			edge = true
			o.Label("range-edge")
		}
		if s.Op == "gob" {
			decode = true
			if len(s.Mut) > 0 {
				o.Label("gob-mutated")
			}
		}
		// numerically equal <=> Cmp == 0, and Cmp agrees with the exact order
		for a := range m.V {
			for b := range m.V {
				got := m.V[a].Cmp(m.V[b])
				if want := model.Cmp(snaps[a].Val(), snaps[b].Val()); got != want {
					return h.Failf("cmp", "after %s: v%d=%v Cmp v%d=%v = %d, exact order %d", stepString(i, s), a, snaps[a], b, snaps[b], got, want)
				}
			}
		}
	}
	if rounding && aliasing && (edge || decode) {
		o.NonTrivial()
	}
	return nil
}

const ruleC08 = "rapid state machine over 5 Decimal variables (initially zero values, clean/dirty zeros and infinities, finite values): each step is drawn against the current state from set/copy/neg/abs/add/sub/mul/quo/fma/sqrt, SetPrec/SetMode/SetInf, SetMantExp/MantExp (offsets driving exponents to both range ends and back), SetInt/SetInt64/SetUint64/SetRat/SetFloat64/SetFloat, Parse (bases 0,2,8,10,16)/SetString/UnmarshalText/Scan on valid and invalid literals, GobEncode->GobDecode with valid and mutated payloads, read-only accessors (conversions, formatting, encoding, Cmp, predicates), SetBitsExp with fresh word slices (leading/low zero words) or the receiver's own BitsExp slice; receivers and operands drawn independently so every aliasing occurs. Sum-type steps are only scheduled between operands whose digit gap is bounded, quotients/roots at bounded precision (cost bounds). Invariant after every step on every variable: finite => non-empty mantissa, top word in [10^18,10^19), all words < 10^19, 1 <= MinPrec <= Prec, exponent in range; zero/inf => no mantissa, MantExp 0, MinPrec 0; valid mode/accuracy codes; pairwise Cmp == exact order of the values read back (equal digits/exponent <=> Cmp == 0); no panic other than ErrNaN; after Set/Neg/Abs/SetPrec/SetMantExp steps the receiver holds exactly the reference rounding of the operand (range rule included: a carry past MaxExp must give an infinity, not a wrapped finite value). TestC08Fma: single FMA calls from the C03 generator (products beyond the exponent range, addends 2^32 digits away, powers of ten, all aliasing shapes): z, x, y, u canonical afterwards. Non-trivial = a run with at least one rounding step AND one aliased step AND one range-edge or decode step; distinct by program encoding."

var propC08 = &h.Prop[ProgCase]{ID: "C08", Rule: ruleC08, Gen: func(t *rapid.T) ProgCase { return genProg(t, sm.DefaultOpts()) }, Check: checkC08, Matchers: map[string]func(ProgCase) bool{}}

func TestC08(t *testing.T)       { propC08.Search(t) }
func TestC08Replay(t *testing.T) { propC08.Replay(t) }

// ---- C09 -----------------------------------------------------------------------------

func checkC09(c ProgCase, o *h.Obs) *h.Fail {
	m := sm.NewMachine(c.Prog.Init)
	nontrivial := false
	for i, s := range c.Prog.Steps {
		before := make([]h.Snap, len(m.V))
		for j := range m.V {
			before[j] = h.Read(m.V[j])
		}
		out := m.Do(s)
		if out.Panic != nil {
			return h.Failf("panic", "%s panicked with %T: %v", stepString(i, s), out.Panic, out.Panic)
		}
		zb := before[s.Z]
		// operands that are not the receiver keep everything (an accessor has no receiver at all)
		for j := range m.V {
			if j == s.Z && !sm.ReadOnly(s.Op) {
				continue
			}
			if after := h.Read(m.V[j]); !after.SameAll(before[j]) {
				return h.Failf("operand-modified", "%s changed v%d (not the receiver): before %v after %v", stepString(i, s), j, before[j], after)
			}
		}
		if sm.ReadOnly(s.Op) {
			o.Label("op:" + s.Op)
			continue
		}
		za := h.Read(m.V[s.Z])
		if s.Op == "gob" && len(s.Mut) == 0 && zb.Prec == 0 && !out.Rejects {
			// decoding into a zero-precision receiver: transmitted precision and mode
			src := before[s.A[0]]
			if s.A[0] == s.Z {
				src = zb
			}
			if za.Prec != src.Prec || za.Mode != src.Mode {
				return h.Failf("gob-attrs", "%s into a precision-0 receiver: got prec %d mode %v, transmitted prec %d mode %v", stepString(i, s), za.Prec, model.Mode(za.Mode), src.Prec, model.Mode(src.Mode))
			}
			o.Label("gob-into-prec0")
			nontrivial = true
			continue
		}
		if s.Op == "gob" && len(s.Mut) > 0 {
			// corrupted payloads are C17's business, except that whatever GobDecode accepts (the empty payload, the
			// encoding of a nil pointer, included) goes into a receiver that keeps a non-zero precision and its mode
			if !out.Rejects && zb.Prec != 0 && (za.Prec != zb.Prec || za.Mode != zb.Mode) {
				return h.Failf("gob-sticky", "%s: accepted payload changed the receiver's precision %d -> %d, mode %v -> %v", stepString(i, s), zb.Prec, za.Prec, model.Mode(zb.Mode), model.Mode(za.Mode))
			}
			continue
		}
		// mode
		modeMayChange := s.Op == "setmode" || sm.CopiesAttributes(s.Op)
		wantMode := zb.Mode
		if s.Op == "setmode" {
			wantMode = s.M
		} else if sm.CopiesAttributes(s.Op) {
			wantMode = before[s.A[0]].Mode
		}
		if za.Mode != wantMode {
			return h.Failf("mode", "%s: receiver mode %v -> %v (operands %v), want %v", stepString(i, s), model.Mode(zb.Mode), model.Mode(za.Mode), s.A, model.Mode(wantMode))
		}
		_ = modeMayChange
		// precision
		opModes := false
		for _, a := range s.A {
			if before[a].Mode != zb.Mode {
				opModes = true
			}
		}
		switch {
		case s.Op == "setprec":
			if za.Prec != s.P {
				return h.Failf("prec", "%s: precision %d want %d", stepString(i, s), za.Prec, s.P)
			}
		case sm.CopiesAttributes(s.Op):
			if want := before[s.A[0]].Prec; za.Prec != want {
				return h.Failf("prec", "%s: precision %d, the argument's is %d", stepString(i, s), za.Prec, want)
			}
		case zb.Prec != 0:
			if za.Prec != zb.Prec {
				return h.Failf("prec-sticky", "%s: receiver precision %d changed to %d", stepString(i, s), zb.Prec, za.Prec)
			}
		default:
			// precision was 0: the documented value (not asserted after a rejected parse or when nothing is documented)
			allowed, ok := sm.ExpectedPrec0(s, before)
			if za.Form == model.Inf && (s.Op == "parse" || s.Op == "setstring" || s.Op == "unmarshaltext") {
				// "Inf" literals go through SetInf, which is documented to leave the
				// precision unchanged (no rounding takes place): 0 and 34 both accepted
				allowed = append(allowed, 0)
			}
			if ok && !out.Rejects {
				match := false
				for _, p := range allowed {
					if za.Prec == p {
						match = true
					}
				}
				if !match {
					return h.Failf("prec0", "%s: receiver had precision 0, now %d, documented %v", stepString(i, s), za.Prec, allowed)
				}
			}
			o.Label("prec0:" + s.Op)
			nontrivial = true
		}
		if opModes && len(s.A) > 0 {
			o.Label("operand-mode-differs")
			nontrivial = true
		}
		o.Label("op:" + s.Op)
	}
	if nontrivial {
		o.NonTrivial()
	}
	return nil
}

const ruleC09 = "the C08 state machine with the receiver's precision forced to 0 before about 30% of the steps and receiver/operand modes drawn independently. About one step in eleven is a read-only accessor on a variable (Int, Int64, Uint64, Rat, Float64, Float32, Float, Text/Append in every format, Format, String, GobEncode, MarshalText, JSON, Cmp, the predicates and BitsExp), after which every variable must be bit-identical. Before each step all variables are snapshotted (form, sign, mantissa words, exponent, precision, mode, accuracy); after it: every variable that is not the receiver is bit-identical; the receiver's mode is unchanged unless the operation is SetMode or one documented to copy attributes (Copy, SetMantExp, MantExp's out-parameter, GobDecode into a precision-0 receiver), in which case it equals the argument's; the receiver's precision is unchanged unless it was 0 - then it must equal the documented value (max operand precision for Add/Sub/Mul/Quo/FMA, x's for Sqrt/Set/Neg/Abs, max(34,digits) for SetInt, 34 for SetInt64/SetUint64/strings, 17 for SetFloat64, ceil(prec*log10 2) for SetFloat, either documented reading for SetRat) - or the operation is SetPrec / attribute-copying. Enumerated on every run (TestC09Grid): the precision a precision-0 receiver gets from SetFloat for every big.Float precision 1..45000 (thorough: 120000) against ceil(p*log10 2) computed with a 60-digit constant, and SetInt's max(34, digits) for 1..400 digits. TestC09Ops runs single operations from the C01 generator (operands up to 24000 digits) under the operand-unmodified and sticky assertions only; TestC09Fma does the same for single FMA calls from the C03 generator (products beyond the exponent range, sums that leave the range again), with twelve such cases enumerated in TestC09Grid. Not asserted: empty Gob payload, corrupted payloads (C17), precision after a rejected literal, precision-0 SetBitsExp (unspecified). Non-trivial = a run containing a step whose receiver had precision 0 or whose operands' modes differ from the receiver's; distinct by program encoding."

var propC09 = &h.Prop[ProgCase]{ID: "C09", Rule: ruleC09, Gen: func(t *rapid.T) ProgCase {
	o := sm.DefaultOpts()
	o.Prec0Bias = true
	return genProg(t, o)
}, Check: checkC09, Matchers: map[string]func(ProgCase) bool{}}

// TestC09Grid enumerates the documented precision of a precision-0 receiver after SetFloat for every
// big.Float precision up to 45000 bits (a formula that is right "almost everywhere" is wrong at isolated
// precisions), and SetInt's max(34, digits) rule for every digit count up to 400.
func TestC09Grid(t *testing.T) {
	defer h.WriteStats("C09")
	// log10(2) to 60 digits as a rational: ceil(p*log10 2) is then exact for every p in range
	l2, _ := new(big.Rat).SetString("0.301029995663981195213738894724493026768189881462108541310427")
	n := 0
	max := 45000
	if h.Thorough() {
		max = 120000
	}
	for p := 1; p <= max; p++ {
		x := new(big.Float).SetPrec(uint(p)).SetInt64(3)
		z := new(decimal.Decimal).SetFloat(x)
		prod := new(big.Rat).Mul(l2, new(big.Rat).SetInt64(int64(p)))
		want := new(big.Int).Quo(prod.Num(), prod.Denom()).Int64() + 1 // ceil of a non-integer
		if got := z.Prec(); int64(got) != want {
			c := ProgCase{Prog: sm.Program{Init: []h.Spec{{F: "z"}}, Steps: []sm.Step{{Op: "setfloat", Z: 0, FK: "fin", F: 3, FP: uint(p)}}}}
			h.ReportGridFail(t, "C09", h.Failf("prec0", "SetFloat of a %d-bit big.Float into a precision-0 receiver: precision %d, documented ceil(%d*log10 2) = %d", p, got, p, want), mustJSON(c))
		}
		if mode := z.Mode(); mode != decimal.ToNearestEven {
			t.Fatalf("mode changed")
		}
		n++
	}
	// ... and, far beyond, the precisions at which p*log10(2) comes closest to an integer from either side (where a
	// slightly different constant or a float rounding flips the ceiling): all p <= 2^27 within 2e-6 of an integer,
	// and the continued-fraction (semi)convergent denominators of log10(2) up to big.Float's MaxPrec
	var tight []uint64
	for p := uint64(45000); p <= 1<<27; p++ {
		f := float64(p) * 0.30102999566398119521
		if d := f - math.Floor(f); d < 2e-6 || d > 1-2e-6 {
			tight = append(tight, p)
		}
	}
	{
		// continued fraction of log10(2) = [0; 3, 3, 9, 2, 2, 4, 6, 2, 1, 1, 3, 1, 18, 1, 6, 1, 2, 1, 1, 4, 1, 42, ...]
		cf := []uint64{3, 3, 9, 2, 2, 4, 6, 2, 1, 1, 3, 1, 18, 1, 6, 1, 2, 1, 1, 4, 1, 42}
		q0, q1 := uint64(1), uint64(0) // q_{-1} = 0, q_0 = 1 with the usual shift
		for _, a := range cf {
			for j := uint64(1); j <= a; j++ {
				if q := q1 + j*q0; q > 1<<27 && q <= math.MaxUint32 {
					tight = append(tight, q, q-1, q+1)
				}
			}
			q0, q1 = q1+a*q0, q0
			if q0 > math.MaxUint32 {
				break
			}
		}
		tight = append(tight, math.MaxUint32, math.MaxUint32-1, 1<<31, 1<<31+1, 1<<31-1)
	}
	for _, p := range tight {
		x := new(big.Float).SetPrec(uint(p)).SetInt64(3)
		if uint64(x.Prec()) != p {
			continue
		}
		z := new(decimal.Decimal).SetFloat(x)
		prod := new(big.Rat).Mul(l2, new(big.Rat).SetInt(new(big.Int).SetUint64(p)))
		want := new(big.Int).Quo(prod.Num(), prod.Denom()).Int64() + 1
		if got := z.Prec(); int64(got) != want {
			c := ProgCase{Prog: sm.Program{Init: []h.Spec{{F: "z"}}, Steps: []sm.Step{{Op: "setfloat", Z: 0, FK: "fin", F: 3, FP: uint(p)}}}}
			h.ReportGridFail(t, "C09", h.Failf("prec0", "SetFloat of a %d-bit big.Float into a precision-0 receiver: precision %d, documented ceil(%d*log10 2) = %d", p, got, p, want), mustJSON(c))
		}
		n++
	}
	h.AddExtra("C09", "precision_rule_tight_cases", len(tight))
	ten := big.NewInt(10)
	v := big.NewInt(1)
	for d := 1; d <= 400; d++ {
		z := new(decimal.Decimal).SetInt(v)
		want := uint(d)
		if want < 34 {
			want = 34
		}
		if z.Prec() != want {
			c := ProgCase{Prog: sm.Program{Init: []h.Spec{{F: "z"}}, Steps: []sm.Step{{Op: "setint", Z: 0, I: v.String()}}}}
			h.ReportGridFail(t, "C09", h.Failf("prec0", "SetInt of a %d-digit integer into a precision-0 receiver: precision %d, documented %d", d, z.Prec(), want), mustJSON(c))
		}
		v.Mul(v, ten)
		n++
	}
	h.AddExtra("C09", "precision_rule_grid_cases_enumerated", n)
	h.AddExtra("C09", "giant_operands_untouched_cases", c09GiantOperands(t))
	// FMA whose product lies beyond the exponent range with an addend of the same sign at the same end, so that the sum
	// formed with shifted exponents leaves the range as well (seeded change C09-r11m1: u's exponent shifted in place and
	// not put back on the early return): both ends, both signs, the addend must be bit-identical afterwards
	{
		cnt := 0
		for _, low := range []bool{false, true} {
			for _, neg := range []bool{false, true} {
				for _, yd := range []string{"9999999999999999999", "95", "1"} {
					c := C03Case{P: 1, M: 0}
					xe, ye, ue := int64(1073741824), int64(1073741825), int64(model.MaxExp)
					if low {
						xe, ye, ue = -1073741824, -1073741826, int64(model.MinExp)
					}
					c.X = h.SpecOf(model.MkFinite(neg, "1", xe), 1, 0)
					c.Y = h.SpecOf(model.MkFinite(false, yd, ye), uint(len(yd)), 0)
					c.U = h.SpecOf(model.MkFinite(neg, "1", ue), 1, 0)
					if f := propC09Fma.Check(c, new(h.Obs)); f != nil {
						h.ReportGridFail(t, "C09", f, mustJSON(c))
					}
					cnt++
				}
			}
		}
		h.AddExtra("C09", "fma_out_of_range_sum_leaves_range_operands_untouched", cnt)
	}
	// the one receiver precision at which a temporary "precision + 1" does not fit, with an argument far enough out
	// that an implementation might leave its exact path: precision and mode must be what they were
	{
		f := new(big.Float).SetMantExp(big.NewFloat(1.5), 1<<20+70)
		z := new(decimal.Decimal).SetPrec(decimal.MaxPrec).SetMode(decimal.ToNegativeInf)
		z.SetFloat(f)
		if z.Prec() != decimal.MaxPrec || z.Mode() != decimal.ToNegativeInf {
			c := ProgCase{Prog: sm.Program{Init: []h.Spec{{F: "z", P: decimal.MaxPrec, M: uint8(decimal.ToNegativeInf)}}, Steps: []sm.Step{{Op: "setfloat", Z: 0, FK: "fin", F: 3, FP: 2}}}}
			h.ReportGridFail(t, "C09", h.Failf("sticky", "SetFloat(1.5 x 2^%d) into a receiver of precision MaxPrec, ToNegativeInf: precision %d, mode %v afterwards", 1<<20+70, z.Prec(), z.Mode()), mustJSON(c))
		}
		h.AddExtra("C09", "setfloat_into_maxprec_receiver", 1)
	}
}

// c09GiantOperands: operands of 65537..70001 words (1.3 million digits) whose arrays have spare capacity, as a
// mantissa that was longer before has, through operations at a small receiver precision (where an implementation is
// tempted to work in the operand's own storage): every word of every operand, its attributes and its array must be
// what they were; the quotients are checked against math/big as well.
func c09GiantOperands(t *testing.T) int {
	st := uint64(0x9E3779B97F4A7C15)
	next := func() uint64 {
		st = st*6364136223846793005 + 1442695040888963407
		return (st >> 3) % h.Base
	}
	mkWords := func(n, spare int) []decimal.Word {
		w := make([]decimal.Word, n, n+spare)
		for i := range w {
			w[i] = decimal.Word(next())
		}
		if w[0] == 0 {
			w[0] = 7
		}
		w[n-1] = decimal.Word(h.Base/10 + next()%(h.Base-h.Base/10)) // normalised
		return w
	}
	toBig := func(w []decimal.Word) *big.Int {
		var sb strings.Builder
		for i := len(w) - 1; i >= 0; i-- {
			fmt.Fprintf(&sb, "%019d", uint64(w[i]))
		}
		v, _ := new(big.Int).SetString(sb.String(), 10)
		return v
	}
	cnt := 0
	for _, nx := range []int{65537, 70001} {
		for _, ny := range []int{1, 2, 1000} {
			xw, yw := mkWords(nx, 1508), mkWords(ny, 3)
			x := new(decimal.Decimal).SetPrec(uint(19 * nx)).SetMode(decimal.ToZero)
			x.SetBitsExp(xw, 12)
			y := new(decimal.Decimal).SetPrec(uint(19 * ny)).SetMode(decimal.AwayFromZero)
			y.SetBitsExp(yw, -5)
			xb, yb := h.Read(x), h.Read(y)
			xcopy := append([]decimal.Word(nil), xw[:cap(xw)]...)
			xi, yi := toBig(xw), toBig(yw)
			for _, op := range []string{"quo", "mul", "add", "sub", "fma", "cmp", "set", "sqrt"} {
				z := new(decimal.Decimal).SetPrec(50).SetMode(decimal.ToNearestEven)
				switch op {
				case "quo":
					z.Quo(x, y)
					// leading 50 digits of xi/yi, truncated, against the rounded quotient (within one unit of the 50th digit)
					sc := new(big.Int).Exp(big.NewInt(10), big.NewInt(int64(19*ny+60)), nil)
					q := new(big.Int).Quo(new(big.Int).Mul(xi, sc), yi)
					qs := q.String()
					zw, _ := z.BitsExp()
					got := toBig(zw).String()
					if !strings.HasPrefix(got, qs[:49]) && !strings.HasPrefix(qs, got[:49]) {
						// (a carry through all 49 digits would need a quotient of forty-nine nines: not these operands)
						h.ReportGridFail(t, "C09", h.Failf("giant-quo", "quotient of a %d-word by a %d-word operand at precision 50: digits %s, math/big %s", nx, ny, got[:50], qs[:50]), mustJSON(struct{ NX, NY int }{nx, ny}))
					}
				case "mul":
					z.Mul(x, y)
				case "add":
					z.Add(x, y)
				case "sub":
					z.Sub(y, x)
				case "fma":
					z.FMA(y, x, y)
				case "cmp":
					_ = x.Cmp(y) + y.Cmp(x)
				case "set":
					z.Set(x)
				case "sqrt":
					if ny != 1 {
						continue
					}
					z.Sqrt(x)
				}
				if xa, ya := h.Read(x), h.Read(y); !xa.SameAll(xb) || !ya.SameAll(yb) {
					h.ReportGridFail(t, "C09", h.Failf("operand-modified", "%s with a %d-word and a %d-word operand at receiver precision 50 changed an operand", op, nx, ny), mustJSON(struct {
						Op     string
						NX, NY int
					}{op, nx, ny}))
				}
				for i, w := range xw[:cap(xw)] {
					if w != xcopy[i] {
						h.ReportGridFail(t, "C09", h.Failf("operand-array-modified", "%s with a %d-word and a %d-word operand: word %d of x's array (length %d, capacity %d) changed", op, nx, ny, i, nx, cap(xw)), mustJSON(struct {
							Op     string
							NX, NY int
						}{op, nx, ny}))
					}
				}
				if zw, _ := z.BitsExp(); len(zw) > 0 && &zw[:1][0] == &xw[0] {
					h.ReportGridFail(t, "C09", h.Failf("shared-array", "%s: the receiver's mantissa is x's array", op), mustJSON(struct{ Op string }{op}))
				}
				o := &h.Obs{}
				o.Label("giant-operand:" + op)
				o.NonTrivial()
				h.RecordGrid("C09", o, struct {
					Op     string
					NX, NY int
				}{op, nx, ny})
				cnt++
			}
		}
	}
	return cnt
}

// TestC09Ops runs single operations of every size (the C01 generator, which reaches operands of a thousand words)
// under the "operands are never modified, receiver precision and mode are sticky" assertions only.
var propC09Ops = &h.Prop[C01Case]{ID: "C09", Rule: ruleC09, Gen: genC01, Check: func(c C01Case, o *h.Obs) *h.Fail {
	if c.P == 0 && c.Op != "setprec" {
		return h.Failf("bad-case", "precision 0")
	}
	zd, xd, yd := c01ExecOps(c)
	o.Label("single-op:" + c.Op)
	if len(c.X.D) > 1024*h.DW || len(c.Y.D) > 1024*h.DW {
		o.Label("single-op:operand>1024words")
		o.NonTrivial()
	}
	if xd != nil && xd != zd {
		if xs := h.Read(xd); !xs.SameAll(c01Before[0]) {
			return h.Failf("operand-modified", "%s changed its first operand: %v is now %v", c.Op, c01Before[0], xs)
		}
	}
	if yd != nil && yd != zd {
		if ys := h.Read(yd); !ys.SameAll(c01Before[1]) {
			return h.Failf("operand-modified", "%s changed its second operand: %v is now %v", c.Op, c01Before[1], ys)
		}
	}
	if zs := h.Read(zd); zs.Prec != c.P || zs.Mode != c.M {
		return h.Failf("prec-sticky", "%s: receiver precision %d mode %v became %d %v", c.Op, c.P, model.Mode(c.M), zs.Prec, model.Mode(zs.Mode))
	}
	return nil
}, Matchers: map[string]func(C01Case) bool{}, Filter: func(string) bool { return false }}

func TestC09Ops(t *testing.T) { propC09Ops.Search(t) }

// TestC09Fma runs single FMA calls from the C03 generator (products beyond the exponent range, addends at the same end
// of the range and of the same sign so that the shifted sum itself overflows or underflows, massive cancellation,
// every aliasing shape) under the "operands are never modified, receiver precision and mode are sticky" assertions only.
var propC09Fma = &h.Prop[C03Case]{ID: "C09", Rule: ruleC09, Gen: genC03, Check: func(c C03Case, o *h.Obs) *h.Fail {
	if c.P == 0 {
		return h.Failf("bad-case", "precision 0")
	}
	z, x, y, u, alias := fmaVars(c)
	ops := []*decimal.Decimal{x, y, u}
	before := []h.Snap{h.Read(x), h.Read(y), h.Read(u)}
	h.CatchNaN(func() { z.FMA(x, y, u) })
	o.Label("single-op:fma:alias=" + alias)
	if fmaProductOutOfRange(c) {
		o.Label("single-op:fma:product-out-of-range")
		o.NonTrivial()
	}
	for i, d := range ops {
		if d == z {
			continue
		}
		if s := h.Read(d); !s.SameAll(before[i]) {
			return h.Failf("operand-modified", "FMA changed operand %s: %v is now %v", []string{"x", "y", "u"}[i], before[i], s)
		}
	}
	if zs := h.Read(z); zs.Prec != c.P || zs.Mode != c.M {
		return h.Failf("prec-sticky", "FMA: receiver precision %d mode %v became %d %v", c.P, model.Mode(c.M), zs.Prec, model.Mode(zs.Mode))
	}
	return nil
}, Matchers: map[string]func(C03Case) bool{}, Filter: func(string) bool { return false }}

func TestC09Fma(t *testing.T) { propC09Fma.Search(t) }

// TestC08Fma: the result of a single FMA from the C03 generator (products beyond the exponent range, addends 2^32 digits
// away, exact powers of ten, every aliasing shape) is canonical, whatever path produced it (seeded change C08-r11m1: the
// out-of-range helper no longer renormalising after a borrow).
var propC08Fma = &h.Prop[C03Case]{ID: "C08", Rule: ruleC08, Gen: genC03, Check: func(c C03Case, o *h.Obs) *h.Fail {
	if c.P == 0 {
		return h.Failf("bad-case", "precision 0")
	}
	z, x, y, u, alias := fmaVars(c)
	h.CatchNaN(func() { z.FMA(x, y, u) })
	o.Label("single-op:fma:alias=" + alias)
	if fmaProductOutOfRange(c) {
		o.Label("single-op:fma:product-out-of-range")
		o.NonTrivial()
	}
	for i, d := range []*decimal.Decimal{z, x, y, u} {
		if s := h.Read(d); s.Malformed != "" {
			return h.Failf("malformed", "after FMA the variable %s is not canonical: %v", []string{"z", "x", "y", "u"}[i], s)
		}
	}
	return nil
}, Matchers: map[string]func(C03Case) bool{}, Filter: func(string) bool { return false }}

func TestC08Fma(t *testing.T) { propC08Fma.Search(t) }

func TestC09(t *testing.T)       { propC09.Search(t) }
func TestC09Replay(t *testing.T) { propC09.Replay(t) }
