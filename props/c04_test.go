package props

import (
	"bytes"
	"encoding/json"
	"fmt"
	"math"
	"math/big"
	"testing"

	"github.com/db47h/decimal"
	"pgregory.net/rapid"

	"verif/h"
	"verif/model"
)

// C04: zeros, infinities and NaN cases follow IEEE-754; only ErrNaN ever panics.

type C04Case struct {
	Op string   `json:"op"`
	A  []h.Spec `json:"a"`           // operands (1..3)
	P  uint     `json:"p"`           // receiver precision
	M  uint8    `json:"m"`           // receiver mode
	F  uint64   `json:"f,omitempty"` // float64 bits for setfloat64 / big.Float mantissa source
	FE int      `json:"fe,omitempty"`
	FP uint     `json:"fp,omitempty"` // big.Float precision
	FK string   `json:"fk,omitempty"` // big.Float kind: "fin", "+inf", "-inf", "+0", "-0"
	Al int      `json:"al,omitempty"` // arithmetic: the receiver is operand Al-1 itself (0: a variable of its own)
	// Zone: an FMA case inside the input zone of known finding F-03c, checked against the two-outcome oracle
	Zone bool `json:"zone,omitempty"`
}

var c04Arith = []string{"add", "sub", "mul", "quo", "fma", "sqrt", "neg", "abs", "set", "cmp"}
var c04Other = []string{"copy", "setprec", "setmantexp", "mantexp", "text", "format", "int", "int64", "uint64", "rat", "float64", "float32", "float", "isint", "gob", "marshaltext", "json", "setfloat64", "setfloat", "setbitsexp", "string"}

func c04Arity(op string) int {
	switch op {
	case "add", "sub", "mul", "quo", "cmp":
		return 2
	case "fma":
		return 3
	case "setfloat64", "setfloat", "setbitsexp":
		return 0
	}
	return 1
}

// classSpec returns a representative of an operand class {-Inf,-fin,-0,+0,+fin,+Inf}.
func classSpec(cls int, fin h.Spec) h.Spec {
	switch cls {
	case 0:
		return h.Spec{F: "i", Neg: true}
	case 1:
		fin.Neg = true
		return fin
	case 2:
		return h.Spec{F: "z", Neg: true}
	case 3:
		return h.Spec{F: "z"}
	case 4:
		fin.Neg = false
		return fin
	}
	return h.Spec{F: "i"}
}

func c04MaxDigits() int {
	if h.Thorough() {
		return 19000
	}
	return 5000
}

func genC04(t *rapid.T) C04Case {
	c := genC04base(t)
	c.Zone = false // (former finding F-03c: no allowance any more)
	return c
}

func genC04base(t *rapid.T) C04Case {
	c := C04Case{M: h.GenMode(t, "zmode")}
	if rapid.IntRange(0, 24).Draw(t, "fma03") == 0 {
		// the FMA generator of C03 (range-end products with zero, infinite and finite addends included), judged
		// here on class, sign, value and ErrNaN
		f := genFMA(t, true)
		al := map[string]int{"x": 1, "y": 2, "u": 3}[f.Alias]
		if al > 0 {
			if a := []h.Spec{f.X, f.Y, f.U}[al-1]; a.F == "f" && uint(len(a.D)) > f.P {
				al = 0
			}
		}
		c = C04Case{Op: "fma", A: []h.Spec{f.X, f.Y, f.U}, P: f.P, M: f.M, Al: al}
		if al > 0 {
			c.A[al-1].P, c.A[al-1].M = f.P, f.M
		}
		return c
	}
	if rapid.IntRange(0, 2).Draw(t, "arith") > 0 {
		c.Op = rapid.SampledFrom(c04Arith).Draw(t, "op")
	} else {
		c.Op = rapid.SampledFrom(c04Other).Draw(t, "op")
	}
	n := c04Arity(c.Op)
	big := rapid.IntRange(0, 3).Draw(t, "big") == 0
	maxD := 80
	if big {
		maxD = c04MaxDigits()
	}
	moderate := false
	switch c.Op {
	case "text", "format", "int", "rat", "float", "float64", "float32", "string", "json", "marshaltext", "int64", "uint64", "isint":
		moderate = true
	}
	var ref h.Spec
	for i := 0; i < n; i++ {
		var s h.Spec
		cls := rapid.IntRange(0, 9).Draw(t, fmt.Sprintf("cls%d", i))
		if cls <= 5 && !(big && (i == 0 || c.Op == "quo" || c.Op == "mul")) {
			fin := h.Spec{F: "f", D: h.GenDigits(t, fmt.Sprintf("d%d", i), 40), E: int64(rapid.IntRange(-30, 30).Draw(t, fmt.Sprintf("e%d", i))), M: h.GenMode(t, fmt.Sprintf("m%d", i))}
			fin.P = uint(len(fin.D)) + uint(rapid.IntRange(0, 5).Draw(t, fmt.Sprintf("p%d", i)))
			s = classSpec(cls, fin)
			if s.F != "f" {
				s.P = uint(rapid.SampledFrom([]int{0, 1, 34}).Draw(t, fmt.Sprintf("sp%d", i)))
				s.M = h.GenMode(t, fmt.Sprintf("sm%d", i))
				s.Hist = h.GenHist(t, fmt.Sprintf("sh%d", i))
			}
		} else {
			s = h.GenFinite(t, fmt.Sprintf("x%d", i), maxD)
			if big && rapid.IntRange(0, 2).Draw(t, fmt.Sprintf("deep%d", i)) > 0 {
				// deep code paths: Karatsuba (>= 30 words), recursive division (>= 100 words), pooled buffers
				s.D = h.GenDigitsN(t, fmt.Sprintf("deepd%d", i), rapid.IntRange(600, maxD).Draw(t, fmt.Sprintf("deepn%d", i)))
				if uint(len(s.D)) > s.P {
					s.P = uint(len(s.D))
				}
			}
			if moderate {
				s.E = h.GenExpModerate(t, fmt.Sprintf("xe%d", i), 5000)
				if lim := uint(len(s.D)) + 2000; s.P > lim {
					s.P = lim // the 'b' format prints Prec() digits
				}
			}
		}
		if i == 0 {
			ref = s
		}
		c.A = append(c.A, s)
	}
	// sums cost memory linear in the exponent gap: place the addends relative to each other
	switch c.Op {
	case "add", "sub":
		if c.A[0].F == "f" && c.A[1].F == "f" {
			c.A[1].E = genRelExp(t, c.A[0], len(c.A[1].D), 10)
		}
	case "fma":
		if c.A[0].F == "f" && c.A[1].F == "f" && c.A[2].F == "f" {
			if s := c.A[0].E + c.A[1].E; s > model.MaxExp-50 || s < model.MinExp+50 {
				c.A[1].E = -c.A[0].E / 2
				c.A[0].E = c.A[0].E / 2
			}
			prodLike := h.Spec{F: "f", D: c.A[0].D + c.A[1].D, E: c.A[0].E + c.A[1].E}
			c.A[2].E = genRelExp(t, prodLike, len(c.A[2].D), 10)
		}
	}
	_ = ref
	// results at the ends of the exponent range: cancellation just above MinExp (underflow to a signed zero),
	// carries and products at MaxExp
	if (c.Op == "add" || c.Op == "sub") && c.A[0].F == "f" && c.A[1].F == "f" && rapid.IntRange(0, 7).Draw(t, "edge") == 0 {
		common := h.GenDigitsN(t, "edge.common", rapid.IntRange(1, 30).Draw(t, "edge.cn"))
		c.A[0].D = common + h.GenDigitsN(t, "edge.a", rapid.IntRange(1, 5).Draw(t, "edge.an"))
		c.A[1].D = common + h.GenDigitsN(t, "edge.b", rapid.IntRange(1, 5).Draw(t, "edge.bn"))
		e := int64(model.MinExp) + int64(rapid.IntRange(0, 3).Draw(t, "edge.e"))
		if rapid.IntRange(0, 3).Draw(t, "edge.hi") == 0 {
			e = model.MaxExp - int64(rapid.IntRange(0, 1).Draw(t, "edge.eh"))
		}
		c.A[0].E, c.A[1].E = e, e
		c.A[0].P, c.A[1].P = uint(len(c.A[0].D)), uint(len(c.A[1].D))
		// opposite effective signs so that the magnitudes cancel
		c.A[1].Neg = c.A[0].Neg == (c.Op == "add")
		if rapid.IntRange(0, 4).Draw(t, "edge.same") == 0 {
			c.A[1].Neg = !c.A[1].Neg
		}
	}
	c.P = uint(rapid.IntRange(1, 60).Draw(t, "p"))
	if big {
		c.P = uint(rapid.IntRange(1, maxD/2+1).Draw(t, "pbig"))
	}
	switch c.Op {
	case "add", "sub", "mul", "quo", "fma", "sqrt", "neg", "abs", "set":
		if rapid.IntRange(0, 4).Draw(t, "aliased") == 0 {
			// the receiver is one of the operands (it then carries the receiver's precision and mode)
			i := rapid.IntRange(0, n-1).Draw(t, "alias")
			a := &c.A[i]
			if a.F == "f" && uint(len(a.D)) > c.P {
				c.P = uint(len(a.D))
			}
			if !(c.Op == "quo" || c.Op == "sqrt") || int(c.P) <= quoPrecLimit() {
				a.P, a.M = c.P, c.M
				c.Al = i + 1
			}
		}
	case "setfloat64":
		c.F = genFloat64Bits(t, "f")
	case "setfloat":
		c.FK = rapid.SampledFrom([]string{"fin", "fin", "fin", "+inf", "-inf", "+0", "-0"}).Draw(t, "fk")
		c.F = rapid.Uint64().Draw(t, "fm")
		c.FE = rapid.IntRange(-3000, 3000).Draw(t, "fe")
		c.FP = uint(rapid.IntRange(1, 300).Draw(t, "fp"))
	case "setbitsexp":
		c.F = rapid.Uint64().Draw(t, "w") % h.Base
		c.FE = rapid.IntRange(-100, 100).Draw(t, "we")
		c.P = uint(rapid.IntRange(0, 40).Draw(t, "p0"))
	case "setprec":
		c.P = uint(rapid.IntRange(0, 60).Draw(t, "p0"))
	}
	return c
}

func genFloat64Bits(t *rapid.T, label string) uint64 {
	switch rapid.IntRange(0, 5).Draw(t, label+".cls") {
	case 0:
		return rapid.SampledFrom([]uint64{
			math.Float64bits(math.NaN()), 0x7ff0000000000001, 0xfff8000000000001,
			math.Float64bits(math.Inf(1)), math.Float64bits(math.Inf(-1)), 0, 1 << 63,
			1, 0x000fffffffffffff, 0x0010000000000000, 0x7fefffffffffffff, math.Float64bits(1), math.Float64bits(0.1),
		}).Draw(t, label+".edge")
	case 1:
		// subnormals
		return rapid.Uint64Range(1, 1<<52-1).Draw(t, label+".sub") | uint64(rapid.IntRange(0, 1).Draw(t, label+".sneg"))<<63
	case 2:
		// small integers and dyadic fractions
		return math.Float64bits(float64(rapid.IntRange(-1<<20, 1<<20).Draw(t, label+".int")) / float64(int(1)<<rapid.IntRange(0, 20).Draw(t, label+".sh")))
	}
	return rapid.Uint64().Draw(t, label)
}

func bigFloatOf(c C04Case) *big.Float {
	f := new(big.Float).SetPrec(c.FP)
	switch c.FK {
	case "+inf":
		return f.SetInf(false)
	case "-inf":
		return f.SetInf(true)
	case "+0":
		return f
	case "-0":
		return f.Neg(f)
	}
	f.SetMode(big.ToZero).SetUint64(c.F | 1)
	f.SetMantExp(f, c.FE)
	if c.F&2 != 0 {
		f.Neg(f)
	}
	return f
}

// c04Want is the IEEE-754 outcome for the arithmetic operations.
func c04Want(c C04Case) (model.Res, bool) {
	p, m := uint64(c.P), model.Mode(c.M)
	v := func(i int) model.Val { return c.A[i].Val() }
	switch c.Op {
	case "add":
		return model.Sum(v(0), v(1), p, m), true
	case "sub":
		return model.Diff(v(0), v(1), p, m), true
	case "mul":
		return model.Prod(v(0), v(1), p, m), true
	case "quo":
		return model.Quot(v(0), v(1), p, m), true
	case "fma":
		return model.Fma(v(0), v(1), v(2), p, m), true
	case "sqrt":
		x := v(0)
		if x.Form == model.Finite && !x.Neg {
			// the rounded value of a finite root is C05's business: class and sign only
			return model.Res{V: model.Val{Form: model.Finite}}, false
		}
		return model.Sqrt(x, p, m), true
	case "set":
		return model.SetVal(v(0), p, m), true
	case "neg":
		r := model.SetVal(v(0), p, m)
		r.V = r.V.Negate()
		return r, true
	case "abs":
		r := model.SetVal(v(0), p, m)
		r.V = r.V.AbsVal()
		return r, true
	}
	return model.Res{}, false
}

func checkC04(c C04Case, o *h.Obs) *h.Fail {
	o.Label(c.Op)
	special := false
	large := false
	for _, s := range c.A {
		if s.F != "f" {
			special = true
		}
		if len(s.D) >= 100*h.DW {
			large = true
		}
	}
	if special {
		o.Label("special-operand")
		o.NonTrivial()
	}
	if large {
		o.Label("operand>=100words")
		o.NonTrivial()
	}
	if len(c.A) != c04Arity(c.Op) {
		return h.Failf("bad-case", "arity")
	}
	ops := make([]*decimal.Decimal, len(c.A))
	for i, s := range c.A {
		ops[i] = s.Build()
	}
	z := mkRecv(c.P, c.M)
	if c.Al > 0 && c.Al <= len(ops) {
		z = ops[c.Al-1]
		o.Label("aliased-receiver")
	}
	var cmp int
	nan := h.CatchNaN(func() {
		switch c.Op {
		case "add":
			z.Add(ops[0], ops[1])
		case "sub":
			z.Sub(ops[0], ops[1])
		case "mul":
			z.Mul(ops[0], ops[1])
		case "quo":
			z.Quo(ops[0], ops[1])
		case "fma":
			z.FMA(ops[0], ops[1], ops[2])
		case "sqrt":
			z.Sqrt(ops[0])
		case "neg":
			z.Neg(ops[0])
		case "abs":
			z.Abs(ops[0])
		case "set":
			z.Set(ops[0])
		case "cmp":
			cmp = ops[0].Cmp(ops[1])
		default:
			c04Other2(c, z, ops, o)
		}
	})
	got := h.Read(z)
	if got.Malformed != "" {
		return h.Failf("malformed", "receiver after %s (nan=%v): %v", c.Op, nan, got)
	}
	switch c.Op {
	case "cmp":
		if nan {
			return h.Failf("nan-spurious", "Cmp panicked")
		}
		if want := model.Cmp(c.A[0].Val(), c.A[1].Val()); cmp != want {
			return h.Failf("cmp", "Cmp(%v, %v) = %d want %d", c.A[0].Val(), c.A[1].Val(), cmp, want)
		}
		return nil
	case "setfloat64":
		f := math.Float64frombits(c.F)
		if math.IsNaN(f) != nan {
			return h.Failf("nan", "SetFloat64(%v): ErrNaN=%v", f, nan)
		}
		if nan {
			o.Label("NaN")
			o.NonTrivial()
			return nil
		}
		switch {
		case math.IsInf(f, 0):
			o.NonTrivial()
			if got.Form != model.Inf || got.Neg != (f < 0) {
				return h.Failf("setfloat64", "SetFloat64(%v) = %v", f, got)
			}
		case f == 0:
			o.NonTrivial()
			if got.Form != model.Zero || got.Neg != math.Signbit(f) {
				return h.Failf("setfloat64", "SetFloat64(%v) = %v", f, got)
			}
		default:
			if got.Form != model.Finite || got.Neg != (f < 0) {
				return h.Failf("setfloat64", "SetFloat64(%v) = %v", f, got)
			}
		}
		return nil
	case "setfloat":
		if nan {
			return h.Failf("nan-spurious", "SetFloat(%v) panicked with ErrNaN", bigFloatOf(c))
		}
		f := bigFloatOf(c)
		wantForm := model.Finite
		if f.IsInf() {
			wantForm = model.Inf
			o.NonTrivial()
		} else if f.Sign() == 0 {
			wantForm = model.Zero
			o.NonTrivial()
		}
		if got.Form != wantForm || got.Neg != f.Signbit() {
			return h.Failf("setfloat", "SetFloat(%v) = %v", f.Text('g', 20), got)
		}
		return nil
	}
	want, full := c04Want(c)
	if false && c.Zone {
		// (historic: former finding F-03c: the fused result or, in full, the result of range-checking the product first
		o.Label("f03c-zone")
		o.NonTrivial()
		two := model.FmaRangeChecked(c.A[0].Val(), c.A[1].Val(), c.A[2].Val(), uint64(c.P), model.Mode(c.M))
		ok := func(w model.Res) bool {
			if w.NaN || nan {
				return w.NaN == nan
			}
			return got.Val().Equal(w.V)
		}
		if !ok(want) && !ok(two) {
			return h.Failf("zone", "fma%v prec %d %v: got %v (ErrNaN=%v); the fused result is %v (NaN=%v), with the product range-checked first (F-03c) %v (NaN=%v)", c.A, c.P, model.Mode(c.M), got.Val(), nan, want.V, want.NaN, two.V, two.NaN)
		}
		return nil
	}
	if !full && c.Op != "sqrt" {
		if nan {
			return h.Failf("nan-spurious", "%s panicked with ErrNaN on valid arguments %v", c.Op, c.A)
		}
		return nil
	}
	if c.Op == "sqrt" && !full {
		if nan {
			return h.Failf("nan-spurious", "Sqrt(%v) panicked with ErrNaN", c.A[0].Val())
		}
		if got.Form != model.Finite || got.Neg {
			return h.Failf("class", "Sqrt(%v) = %v", c.A[0].Val(), got)
		}
		return nil
	}
	if want.NaN {
		o.Label("NaN")
		o.NonTrivial()
		if !nan {
			return h.Failf("nan-missing", "%s%v must panic with ErrNaN, got %v", c.Op, c.A, got)
		}
		return nil
	}
	if nan {
		return h.Failf("nan-spurious", "%s%v panicked with ErrNaN, IEEE result is %v", c.Op, c.A, want.V)
	}
	if !got.Val().Equal(want.V) {
		return h.Failf("value", "%s%v prec %d %v = %v, IEEE result %v", c.Op, c.A, c.P, model.Mode(c.M), got.Val(), want.V)
	}
	return nil
}

type fmtSink struct{}

func (fmtSink) Write(p []byte) (int, error) { return len(p), nil }

// c04Other2 exercises the non-arithmetic operations on valid arguments: the
// only acceptable panic is none at all. Special operands must keep class and
// sign through conversions.
func c04Other2(c C04Case, z *decimal.Decimal, ops []*decimal.Decimal, o *h.Obs) {
	var x *decimal.Decimal
	var xv model.Val
	if len(ops) > 0 {
		x = ops[0]
		xv = c.A[0].Val()
	}
	bad := func(f string, a ...interface{}) {
		panic(h.Failf("conversion", f, a...))
	}
	switch c.Op {
	case "copy":
		z.Copy(x)
		if !h.Read(z).SameAll(h.Read(x)) {
			bad("Copy(%v) = %v", h.Read(x), h.Read(z))
		}
	case "setprec":
		x.SetPrec(c.P)
		z.Set(x)
	case "setmantexp":
		z.SetMantExp(x, int(int32(c.M)*7-20))
	case "mantexp":
		x.MantExp(z)
	case "text", "string":
		for _, f := range []byte("eEfgGpb") {
			s := x.Text(f, int(c.P%30)-1)
			if xv.Form == model.Inf {
				want := "+Inf"
				if xv.Neg {
					want = "-Inf"
				}
				if s != want {
					bad("Text(%c) of %v = %q", f, xv, s)
				}
			}
		}
		_ = x.String()
	case "format":
		for _, f := range []string{"%v", "%e", "%10.3f", "%+g", "%-20G", "%08.2e", "% .4f", "%s", "%d", "%b", "%p"} {
			fmt.Fprintf(fmtSink{}, f, x)
		}
	case "int":
		i, _ := x.Int(nil)
		if (i == nil) != (xv.Form == model.Inf) {
			bad("Int of %v = %v", xv, i)
		}
	case "int64":
		x.Int64()
	case "uint64":
		x.Uint64()
	case "rat":
		r, _ := x.Rat(nil)
		if (r == nil) != (xv.Form == model.Inf) {
			bad("Rat of %v = %v", xv, r)
		}
	case "float64":
		f, _ := x.Float64()
		if xv.Form != model.Finite && (math.IsInf(f, 0) != (xv.Form == model.Inf) || math.Signbit(f) != xv.Neg || xv.Form == model.Zero && f != 0) {
			bad("Float64 of %v = %v", xv, f)
		}
	case "float32":
		f, _ := x.Float32()
		if xv.Form != model.Finite && (math.IsInf(float64(f), 0) != (xv.Form == model.Inf) || math.Signbit(float64(f)) != xv.Neg) {
			bad("Float32 of %v = %v", xv, f)
		}
	case "float":
		f := x.Float(nil)
		if xv.Form != model.Finite && (f.IsInf() != (xv.Form == model.Inf) || f.Signbit() != xv.Neg) {
			bad("Float of %v = %v", xv, f)
		}
	case "isint":
		if x.IsInt() && xv.Form == model.Inf {
			bad("IsInt(Inf)")
		}
		x.MinPrec()
	case "gob":
		b, err := x.GobEncode()
		if err != nil {
			bad("GobEncode: %v", err)
		}
		var d decimal.Decimal
		if err := d.GobDecode(b); err != nil {
			bad("GobDecode(GobEncode(%v)): %v", xv, err)
		}
		if !h.Read(&d).SameButWords(h.Read(x)) {
			bad("gob round trip of %v = %v", h.Read(x), h.Read(&d))
		}
	case "marshaltext":
		b, err := x.MarshalText()
		if err != nil {
			bad("MarshalText: %v", err)
		}
		d := new(decimal.Decimal).SetPrec(uint(len(c.A[0].D)) + 1)
		if err := d.UnmarshalText(b); err != nil {
			bad("UnmarshalText(%q): %v", b, err)
		}
		if !h.Read(d).Val().Equal(xv) {
			bad("text round trip of %v = %v", xv, h.Read(d))
		}
	case "json":
		b, err := json.Marshal(x)
		if err != nil {
			bad("json.Marshal: %v", err)
		}
		d := new(decimal.Decimal).SetPrec(uint(len(c.A[0].D)) + 1)
		if err := json.Unmarshal(b, d); err != nil && xv.Form != model.Inf {
			bad("json.Unmarshal(%q): %v", bytes.TrimSpace(b), err)
		}
	case "setfloat64":
		z.SetFloat64(math.Float64frombits(c.F))
	case "setfloat":
		z.SetFloat(bigFloatOf(c))
	case "setbitsexp":
		z.SetBitsExp([]decimal.Word{decimal.Word(c.F)}, int64(c.FE))
	default:
		panic(h.BuildError{Msg: "unknown op " + c.Op})
	}
}

// TestC04Grid enumerates every operation over every combination of operand
// classes {-Inf,-fin,-0,+0,+fin,+Inf}^k and every rounding mode.
func TestC04Grid(t *testing.T) {
	defer h.WriteStats("C04")
	fins := []h.Spec{
		{F: "f", D: "1", E: 1, P: 1},
		{F: "f", D: "15", E: 0, P: 2},
		{F: "f", D: "999", E: 5, P: 5},
	}
	n := 0
	for _, op := range append(append([]string{}, c04Arith...), c04Other...) {
		k := c04Arity(op)
		total := 1
		for i := 0; i < k; i++ {
			total *= 6
		}
		for idx := 0; idx < total; idx++ {
			for m := 0; m < 6; m++ {
				for fi := range fins {
					if k == 0 && fi > 0 {
						continue
					}
					c := C04Case{Op: op, P: uint(1 + 2*fi), M: uint8(m), FK: "+inf", FP: 10}
					r := idx
					for i := 0; i < k; i++ {
						c.A = append(c.A, classSpec(r%6, fins[(fi+i)%len(fins)]))
						r /= 6
					}
					if k == 0 {
						c.F = math.Float64bits(math.NaN())
						if op == "setbitsexp" {
							c.F = 123
						}
					}
					o := &h.Obs{}
					if f := propC04.SafeCheck(c, o); f != nil {
						b, _ := json.Marshal(c)
						h.ReportGridFail(t, "C04", f, b)
					}
					h.RecordGrid("C04", o, c)
					n++
				}
			}
		}
	}
	h.AddExtra("C04", "class_grid_cases_enumerated", n)
}

const ruleC04 = "two parts. (1) Exhaustive class grid, enumerated on every run: every operation x every combination of operand classes {-Inf,-finite,-0,+0,+finite,+Inf}^k (k = arity, up to 3) x six modes x three finite representatives, against a table written from IEEE 754-2008 6.3/7.2 (model.Sum/Prod/Quot/Fma/Sqrt). (2) rapid-generated cases: same operations with operands drawn from all classes (dirty zeros/infinities included) and finite magnitudes up to 5000 (quick) / 19000 (thorough) digits with adversarial word patterns, so that 'no other panic' covers Karatsuba, recursive division and pooled buffers; conversions, formatting, encoding, SetFloat64 (NaN, Inf, subnormals), SetFloat (Inf, zeros), SetBitsExp on precision-0 receivers. Oracle: result class, sign and (for arithmetic) full value per IEEE; invalid operations must panic with a value of dynamic type decimal.ErrNaN and leave the receiver canonical; every other panic is a violation. Non-trivial = at least one special operand or an operand of >= 100 words; distinct by case encoding."

var propC04 = &h.Prop[C04Case]{ID: "C04", Rule: ruleC04, Gen: genC04, Check: checkC04, Matchers: map[string]func(C04Case) bool{
	"fma-product-exp-out-of-range": func(c C04Case) bool {
		return c.Op == "fma" && !c.Zone && len(c.A) == 3 && fmaProductOutOfRange(C03Case{X: c.A[0], Y: c.A[1], U: c.A[2]})
	}}}

func TestC04(t *testing.T)       { propC04.Search(t) }
func TestC04Replay(t *testing.T) { propC04.Replay(t) }
