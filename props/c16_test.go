package props

import (
	"strings"
	"testing"

	"github.com/db47h/decimal"

	"pgregory.net/rapid"

	"verif/h"
	"verif/model"
)

// C16: Cmp is a total order that agrees with the exact values.

type C16Case struct {
	V []h.Spec `json:"v"` // two or three values
}

func genC16(t *rapid.T) C16Case {
	maxD := 400
	if h.Thorough() {
		maxD = 6000
	}
	a := h.GenAny(t, "a", maxD)
	vs := []h.Spec{a}
	n := rapid.IntRange(2, 3).Draw(t, "n")
	for i := 1; i < n; i++ {
		pi := rapid.IntRange(0, len(vs)-1).Draw(t, "rel")
		prev := vs[pi]
		var s h.Spec
		k := rapid.IntRange(0, 10).Draw(t, "kind")
		switch {
		case prev.F != "f" || k == 0:
			s = h.GenAny(t, "x", maxD)
		case k == 1:
			// the same value at a different mantissa length / precision / mode / accuracy
			s = prev
			s.P = uint(len(prev.D)) + uint(rapid.SampledFrom([]int{0, 1, 19, 20, 38, 57, 200}).Draw(t, "extra"))
			s.M = h.GenMode(t, "m")
			s.Hist = h.GenHist(t, "h")
		case k == 2:
			// same magnitude, opposite sign
			s = prev
			s.Neg = !prev.Neg
		case k <= 5:
			// differs only far down: append / change low digits (mantissas of different lengths)
			s = prev
			tail := h.GenDigitsN(t, "tail", rapid.IntRange(1, 45).Draw(t, "tn"))
			pad := strings.Repeat("0", rapid.SampledFrom([]int{0, 0, 5, 18, 19, 37}).Draw(t, "pad"))
			if rapid.Bool().Draw(t, "drop") && len(prev.D) > 1 {
				s.D = prev.D[:rapid.IntRange(1, len(prev.D)-1).Draw(t, "cut")]
				s.D = strings.TrimRight(s.D, "0")
			} else {
				s.D = prev.D + pad + tail
			}
			s.D = strings.TrimRight(s.D, "0")
			s.P = uint(len(s.D)) + uint(rapid.IntRange(0, 40).Draw(t, "sp"))
			s.M = h.GenMode(t, "m")
			s.Hist = ""
		case k == 6:
			// word-aligned prefix relation: y = x followed by whole extra words whose values are chosen so that
			// 64-bit sums or differences of them wrap (2^63 + 2^63, 2^63 + 2^62 + 2^62, (10^19-1) - 0 ...)
			nw := rapid.IntRange(1, 4).Draw(t, "wa.n")
			w := h.GenWords(t, "wa.w", nw)
			if w[0] < h.Base/10 {
				w[0] = h.Base/10 + w[0]%(h.Base/10)
			}
			extra := rapid.SampledFrom([][]uint64{
				{1 << 63, 1 << 63}, {1 << 63, 1 << 62, 1 << 62}, {1 << 62, 1 << 62, 1 << 62, 1 << 62}, {1 << 63, 1<<63 - 1, 1},
				{h.Base - 1, 1}, {h.Base / 2, h.Base / 2}, {0, 0, 1}, {h.Base - 1}, {1 << 63}, {0, 1 << 63, 1 << 63},
			}).Draw(t, "wa.extra")
			if rapid.IntRange(0, 3).Draw(t, "wa.rand") == 0 {
				extra = h.GenWords(t, "wa.ew", rapid.IntRange(1, 4).Draw(t, "wa.en"))
			}
			render := func(ws []uint64) string {
				le := make([]uint64, len(ws))
				for i, x := range ws {
					le[len(ws)-1-i] = x
				}
				return h.WordsToDigits(le)
			}
			base := h.Spec{F: "f", D: strings.TrimRight(render(w), "0"), E: prev.E, Neg: prev.Neg, M: h.GenMode(t, "wa.m")}
			if base.D == "" {
				base.D = "1"
			}
			base.P = uint(19 * nw)
			vs[pi] = base
			s = base
			s.D = strings.TrimRight(render(append(append([]uint64{}, w...), extra...)), "0")
			s.P = uint(19 * (nw + len(extra)))
			s.Hist = ""
		case k == 10:
			// two long mantissas of the same length that agree except in two to four words anywhere (neighbouring words
			// as after a carry, or far apart), the differences pointing in opposite directions: the most significant
			// difference decides, whatever the comparison does with blocks of words
			nw := rapid.IntRange(3, 70).Draw(t, "md.n")
			w := h.GenWords(t, "md.w", nw)
			if w[0] < h.Base/10 {
				w[0] = h.Base/10 + w[0]%(h.Base/10)
			}
			w2 := append([]uint64{}, w...)
			pos := rapid.IntRange(0, nw-1).Draw(t, "md.pos")
			dir := rapid.Bool().Draw(t, "md.dir")
			for j, nd := 0, rapid.IntRange(2, 4).Draw(t, "md.nd"); j < nd && pos < nw; j++ {
				up := dir == (j%2 == 0)
				switch {
				case up && w2[pos] < h.Base-1:
					w2[pos] += 1 + rapid.Uint64Range(0, h.Base-2-w2[pos]).Draw(t, "md.delta")%7
				case !up && w2[pos] > h.Base/10+7: // (the top word must keep its leading digit: the value would otherwise lose a decade, and at exponent MinExp fall out of the range - a harness error that a thorough campaign reported as a failure once)
					w2[pos] -= 1 + rapid.Uint64Range(0, 5).Draw(t, "md.delta")
				case !up && pos > 0 && w2[pos] > 0:
					w2[pos]--
				case pos > 0:
					w2[pos] = h.Base / 2
				}
				pos += rapid.SampledFrom([]int{1, 1, 1, 2, 7, 8, 9}).Draw(t, "md.step")
			}
			render := func(ws []uint64) string {
				le := make([]uint64, len(ws))
				for i, x := range ws {
					le[len(ws)-1-i] = x
				}
				d := strings.TrimRight(h.WordsToDigits(le), "0")
				if d == "" {
					d = "1"
				}
				return d
			}
			base := h.Spec{F: "f", D: render(w), E: prev.E, Neg: prev.Neg, M: h.GenMode(t, "md.m"), P: uint(19 * nw)}
			base.Hist = rapid.SampledFrom([]string{"", "padfull"}).Draw(t, "md.h")
			vs[pi] = base
			s = base
			s.D = render(w2)
		case k <= 7:
			// same digits, neighbouring exponent; or same exponent, different digits
			s = prev
			if rapid.Bool().Draw(t, "expshift") {
				s.E = clampExp(prev.E + int64(rapid.IntRange(-1, 1).Draw(t, "de")))
			} else {
				s.D = h.GenDigits(t, "d2", maxD)
				s.P = uint(len(s.D))
			}
			s.Hist = ""
		default:
			// last digit +-1 on a value stored with a different number of words
			s = prev
			b := []byte(prev.D)
			if b[len(b)-1] > '1' {
				b[len(b)-1]--
			} else {
				b[len(b)-1]++
			}
			s.D = string(b)
			s.P = uint(len(s.D)) + uint(rapid.SampledFrom([]int{0, 19, 38}).Draw(t, "extra"))
			s.Hist = ""
		}
		vs = append(vs, s)
	}
	return C16Case{V: vs}
}

func checkC16(c C16Case, o *h.Obs) *h.Fail {
	n := len(c.V)
	if n < 2 {
		return h.Failf("bad-case", "need two values")
	}
	type dv struct {
		v model.Val
		s h.Snap
	}
	vals := make([]dv, n)
	decs := make([]*decimal.Decimal, n)
	for i, s := range c.V {
		d := s.Build()
		decs[i] = d
		vals[i] = dv{s.Val(), h.Read(d)}
	}
	for i := 0; i < n; i++ {
		x, v := decs[i], vals[i].v
		// predicates consistent with the exact value and with Cmp against zero
		zero := mkRecv(1, 0)
		wantSign := v.Sign()
		if g := x.Sign(); g != wantSign {
			return h.Failf("sign", "Sign(%v) = %d", v, g)
		}
		if x.Signbit() != v.Neg || x.IsZero() != (v.Form == model.Zero) || x.IsInf() != (v.Form == model.Inf) {
			return h.Failf("predicates", "%v: Signbit=%v IsZero=%v IsInf=%v", v, x.Signbit(), x.IsZero(), x.IsInf())
		}
		if g := x.Cmp(zero); g != wantSign {
			return h.Failf("cmp-zero", "Cmp(%v, 0) = %d, Sign = %d", v, g, wantSign)
		}
		if g := x.Cmp(x); g != 0 {
			return h.Failf("reflexive", "Cmp(%v, itself) = %d", v, g)
		}
		for j := 0; j < n; j++ {
			got := x.Cmp(decs[j])
			want := model.Cmp(v, vals[j].v)
			if got != want {
				return h.Failf("order", "Cmp(%v, %v) = %d, exact order %d", c.V[i], c.V[j], got, want)
			}
			if back := decs[j].Cmp(x); back != -got {
				return h.Failf("antisymmetry", "Cmp(%v, %v) = %d but reversed = %d", c.V[i], c.V[j], got, back)
			}
			if i != j && v.Form == model.Finite && vals[j].v.Form == model.Finite && v.Exp == vals[j].v.Exp && v.Neg == vals[j].v.Neg {
				o.Label("same-exponent")
				if len(vals[i].s.Words) != len(vals[j].s.Words) {
					o.Label("same-exponent-different-word-count")
					o.NonTrivial()
				}
			}
		}
	}
	if n == 3 {
		// transitivity
		for a := 0; a < 3; a++ {
			for b := 0; b < 3; b++ {
				for cc := 0; cc < 3; cc++ {
					if decs[a].Cmp(decs[b]) <= 0 && decs[b].Cmp(decs[cc]) <= 0 && decs[a].Cmp(decs[cc]) > 0 {
						return h.Failf("transitivity", "%v <= %v <= %v but first > third", c.V[a], c.V[b], c.V[cc])
					}
				}
			}
		}
		o.Label("triple")
	}
	for i := range decs {
		if after := h.Read(decs[i]); !after.SameAll(vals[i].s) {
			return h.Failf("operand-modified", "Cmp changed %v into %v", vals[i].s, after)
		}
	}
	return nil
}

const ruleC16 = "rapid-generated pairs and triples: independent values (all forms, clean and dirty zeros/infinities), the same value stored with a different precision / mantissa length (extra low zero words) / mode / leftover accuracy, the same magnitude with opposite sign, values that differ only far down (appended or dropped low digits, across word boundaries), last digit +-1 on mantissas of different word counts, a mantissa against the same mantissa followed by whole extra words chosen so that 64-bit sums/differences of words wrap (2^63+2^63, ...), same digits at neighbouring exponents, same exponent with different digits, long mantissas (3..70 words) of equal length that differ in two to four words, neighbouring or 7..9 words apart, in opposite directions. Oracle: exact order of the extended reals computed on (sign, digit string, exponent) without materialising powers of ten, -0 == +0; Cmp(x,y) == -Cmp(y,x); reflexivity; transitivity on triples; Sign, Signbit, IsZero, IsInf consistent with the value and with Cmp against zero; operands unchanged. Non-trivial = a pair with equal sign and exponent (mantissa comparison reached) whose mantissas have different word counts."

var propC16 = &h.Prop[C16Case]{ID: "C16", Rule: ruleC16, Gen: genC16, Check: checkC16, Matchers: map[string]func(C16Case) bool{}}

func TestC16(t *testing.T)       { propC16.Search(t) }
func TestC16Replay(t *testing.T) { propC16.Replay(t) }
