package props

import (
	"bytes"
	"encoding/gob"
	"encoding/json"
	"testing"

	"github.com/db47h/decimal"
	"pgregory.net/rapid"

	"verif/h"
	"verif/model"
	"verif/sm"
)

// C17: Gob encoding round-trips every attribute and decoding is safe on any bytes.

type C17Case struct {
	Kind string  `json:"kind"` // rt | mut | raw
	X    h.Spec  `json:"x,omitempty"`
	Via  string  `json:"via,omitempty"` // "", "gob", "json"
	Z    *h.Spec `json:"z,omitempty"`   // receiver (nil: zero value)
	Mut  []int   `json:"mut,omitempty"`
	Raw  []byte  `json:"raw,omitempty"`
}

func genC17(t *rapid.T) C17Case {
	c := C17Case{}
	c.Kind = rapid.SampledFrom([]string{"rt", "rt", "rt", "mut", "mut", "raw"}).Draw(t, "kind")
	maxD := 800
	if h.Thorough() {
		maxD = 6000
	}
	genRecv := func() {
		if rapid.IntRange(0, 2).Draw(t, "zrecv") == 0 {
			return // zero value receiver
		}
		p := uint(rapid.IntRange(1, 80).Draw(t, "zp"))
		if c.X.F == "f" {
			switch rapid.IntRange(0, 2).Draw(t, "zpcls") {
			case 0:
				p = uint(rapid.IntRange(1, len(c.X.D)).Draw(t, "zps"))
			case 1:
				p = uint(len(c.X.D))
			default:
				p = uint(len(c.X.D) + rapid.IntRange(1, 50).Draw(t, "zpl"))
			}
		}
		c.Z = genRecvPrev(t, p, h.GenMode(t, "zm"))
		if c.Z == nil {
			c.Z = &h.Spec{F: "z", P: p, M: h.GenMode(t, "zm2")}
		}
	}
	switch c.Kind {
	case "rt":
		c.X = h.GenAny(t, "x", maxD)
		if c.X.F == "f" && rapid.IntRange(0, 3).Draw(t, "rp") == 0 {
			// a value with a rounding pattern relative to the receiver's precision
			c.X.D = h.GenRoundDigits(t, "xr", rapid.IntRange(1, 40).Draw(t, "xrp"))
			c.X.P = h.GenPrecFor(t, "xp", len(c.X.D))
		}
		c.Via = rapid.SampledFrom([]string{"", "", "gob", "json"}).Draw(t, "via")
		genRecv()
		if c.X.F == "f" && c.Z != nil && rapid.IntRange(0, 9).Draw(t, "hugepair") == 0 {
			// sender and receiver precisions both near MaxPrec (or near 2^31), the receiver's a little below the
			// sender's: nothing is rounded (the value has far fewer digits), but every size computed from the two
			// precisions is at the edge of 32 bits
			base := rapid.SampledFrom([]uint{model.MaxPrec, model.MaxPrec, 1 << 31, 1<<31 + 40}).Draw(t, "hp.base")
			c.X.P = base - uint(rapid.IntRange(0, 3).Draw(t, "hp.x"))
			c.X.Hist = ""
			zp := c.X.P - uint(rapid.IntRange(1, 40).Draw(t, "hp.z"))
			c.Z = &h.Spec{F: "z", P: zp, M: h.GenMode(t, "hp.zm")}
		}
		if c.Via == "json" {
			c.Z = nil
		}
	case "mut":
		c.X = h.GenAny(t, "x", 200)
		kind := rapid.IntRange(0, 6).Draw(t, "mut.kind")
		val := rapid.IntRange(0, 255).Draw(t, "mut.val")
		switch kind {
		case 4:
			val = rapid.SampledFrom([]int{0, 1, 2, 18, 19, 20, 37, 38, 39, 100, 1 << 20, 1<<32 - 1, 1<<32 - 6}).Draw(t, "mut.prec")
		case 5:
			val = rapid.SampledFrom([]int{0, 1, 1<<31 - 1, -1 << 31, -1, 1 << 20}).Draw(t, "mut.exp")
		}
		c.Mut = []int{kind, rapid.IntRange(0, 4000).Draw(t, "mut.pos"), val}
		genRecv()
	case "raw":
		n := rapid.IntRange(0, 60).Draw(t, "n")
		c.Raw = rapid.SliceOfN(rapid.Byte(), n, n).Draw(t, "raw")
		if n > 0 && rapid.IntRange(0, 3).Draw(t, "ver") > 0 {
			c.Raw[0] = 1 // supported version
		}
		if n > 1 && rapid.IntRange(0, 2).Draw(t, "finite") > 0 {
			c.Raw[1] = c.Raw[1]&^6 | 2 // form = finite
		}
		if n > 6 && rapid.Bool().Draw(t, "smallprec") {
			c.Raw[2], c.Raw[3], c.Raw[4] = 0, 0, 0
		}
		genRecv()
	}
	return c
}

func c17Recv(c C17Case) *decimal.Decimal {
	if c.Z != nil {
		return c.Z.Build()
	}
	return new(decimal.Decimal)
}

func checkC17(c C17Case, o *h.Obs) *h.Fail {
	o.Label(c.Kind)
	switch c.Kind {
	case "rt":
		x := c.X.Build()
		before := h.Read(x)
		xv := c.X.Val()
		if xv.Form == model.Finite && len(xv.Digits) > h.DW {
			o.NonTrivial()
		}
		z := c17Recv(c)
		switch c.Via {
		case "gob":
			var buf bytes.Buffer
			if err := gob.NewEncoder(&buf).Encode(x); err != nil {
				return h.Failf("encode", "gob.Encode: %v", err)
			}
			if err := gob.NewDecoder(&buf).Decode(z); err != nil {
				return h.Failf("decode", "gob.Decode: %v", err)
			}
		case "json":
			// JSON carries the value only (MarshalText); checked here for value and sign
			b, err := json.Marshal(x)
			if err != nil {
				return h.Failf("encode", "json.Marshal: %v", err)
			}
			z = new(decimal.Decimal).SetPrec(uint(len(xv.Digits)) + 1)
			if err := json.Unmarshal(b, z); err != nil {
				return h.Failf("decode", "json.Unmarshal(%s): %v", h.FirstN(string(b), 100), err)
			}
			if g := h.Read(z); g.Malformed != "" || !g.Val().Equal(xv) {
				return h.Failf("json", "json round trip of %v = %v", xv, g)
			}
			return nil
		default:
			b, err := x.GobEncode()
			if err != nil {
				return h.Failf("encode", "GobEncode: %v", err)
			}
			if err := z.GobDecode(b); err != nil {
				return h.Failf("decode", "GobDecode(GobEncode(%v)): %v", before, err)
			}
		}
		if after := h.Read(x); !after.SameAll(before) {
			return h.Failf("operand-modified", "encoding changed x: %v -> %v", before, after)
		}
		got := h.Read(z)
		if got.Malformed != "" {
			return h.Failf("malformed", "%v", got)
		}
		// the decoded value must be the receiver's own: still there after unrelated operations have cycled the
		// library's scratch buffers
		h.DisturbPool()
		if again := h.Read(z); !again.SameAll(got) {
			return h.Failf("unstable", "decoded %v, but after unrelated divisions and products on other variables the receiver reads %v", got, again)
		}
		if c.Z == nil || c.Z.P == 0 {
			o.Label("rt:into-prec0")
			if !got.Val().Equal(xv) || got.Prec != before.Prec || got.Mode != before.Mode || got.Acc != before.Acc {
				return h.Failf("roundtrip", "sent %v, received %v", before, got)
			}
			return nil
		}
		o.Label("rt:into-prec>0")
		want := model.SetVal(xv, uint64(c.Z.P), model.Mode(c.Z.M))
		if want.Acc != model.Exact {
			o.Label("rt:rounded-by-receiver")
			o.NonTrivial()
		}
		if got.Prec != c.Z.P || got.Mode != c.Z.M {
			return h.Failf("attrs", "receiver had precision %d mode %v, now %d %v", c.Z.P, model.Mode(c.Z.M), got.Prec, model.Mode(got.Mode))
		}
		if !got.Val().Equal(want.V) || model.Acc(got.Acc) != want.Acc {
			return h.Failf("rounded", "sent %v into precision %d %v: got %v (%v) want %v (%v)", xv, c.Z.P, model.Mode(c.Z.M), got.Val(), model.Acc(got.Acc), want.V, want.Acc)
		}
		return nil
	case "mut", "raw":
		payload := c.Raw
		if c.Kind == "mut" {
			b, err := c.X.Build().GobEncode()
			if err != nil {
				return h.Failf("encode", "GobEncode: %v", err)
			}
			payload = sm.MutatePayload(b, c.Mut)
			o.Labelf("mut:kind%d", c.Mut[0])
		}
		if len(payload) >= 10 && payload[0] == 1 && (payload[1]>>1)&3 == 1 {
			o.Label("reaches-mantissa-parsing")
			o.NonTrivial()
		}
		z := c17Recv(c)
		before := h.Read(z)
		err := z.GobDecode(payload) // a panic here is caught by the runner and reported
		got := h.Read(z)
		if got.Malformed != "" {
			return h.Failf("malformed", "GobDecode(% x) err=%v left %v", h.FirstBytes(payload, 40), err, got)
		}
		if c.Kind == "mut" {
			h.DisturbPool()
			if again := h.Read(z); !again.SameAll(got) {
				return h.Failf("unstable", "GobDecode(% x) left %v, but after unrelated operations on other variables the receiver reads %v", h.FirstBytes(payload, 40), got, again)
			}
		}
		if err != nil {
			o.Label("rejected")
			if !got.SameAll(before) && len(payload) != 0 {
				// not demanded by the property ("returns an error or leaves a canonical Decimal"), but worth counting
				o.Label("rejected-but-receiver-changed")
			}
		} else {
			o.Label("accepted")
		}
		if err == nil && before.Prec != 0 && (got.Prec != before.Prec || got.Mode != before.Mode) {
			// (the empty payload, the encoding of a nil pointer, included)
			return h.Failf("sticky", "GobDecode(% x) accepted into a receiver of precision %d %v left precision %d %v", h.FirstBytes(payload, 40), before.Prec, model.Mode(before.Mode), got.Prec, model.Mode(got.Mode))
		}
		// whatever was accepted must survive a re-encode/decode round trip (it is a valid Decimal)
		if err == nil {
			b2, e2 := z.GobEncode()
			if e2 != nil {
				return h.Failf("reencode", "GobEncode of an accepted payload's value: %v", e2)
			}
			var z2 decimal.Decimal
			if e3 := z2.GobDecode(b2); e3 != nil {
				return h.Failf("reencode", "accepted payload % x does not round-trip: %v", h.FirstBytes(payload, 40), e3)
			}
			if g2 := h.Read(&z2); !g2.SameButWords(got) {
				return h.Failf("reencode", "accepted payload % x: %v re-decodes as %v", h.FirstBytes(payload, 40), got, g2)
			}
		}
		return nil
	}
	return h.Failf("bad-case", "kind %q", c.Kind)
}

const ruleC17 = "rapid-generated cases. (rt) any Decimal with any attributes (precision >= MinPrec up to MaxPrec, six modes, accuracies Below/Exact/Above reached through real roundings, clean and dirty zeros/infinities, up to 800 / 6000 digits) -> GobEncode -> GobDecode, directly or through an encoding/gob stream, into a zero-value receiver (every attribute must be identical) or into a receiver with non-zero precision smaller / equal / larger than x's digits (also: sender and receiver precisions both within 40 of MaxPrec or 2^31, the receiver's below the sender's) and its own mode and previous contents (precision and mode kept, value == x rounded once to them, matching accuracy); JSON streams for value and sign. (mut) a valid encoding with one mutation: byte set, truncation at any length, extension, header byte (form 3, modes 6-7, accuracy code 3), precision field (0, below the digit count, near 2^32), exponent field extremes, a mantissa word replaced by 0 / 10^19 / 2^64-1 / 10^18-1 .... (raw) arbitrary bytes biased towards version 1 + finite form. After every (rt) and (mut) decode a fixed batch of unrelated divisions, products and a square root on private variables cycles the library's pooled scratch buffers and the receiver is read again: it must not have changed. Oracle for mut/raw: no panic; afterwards the receiver is canonical with valid form/mode/accuracy codes whether or not an error was returned; an accepted payload's value re-encodes and decodes to itself. Non-trivial = (rt) finite multi-word value or rounding by the receiver; (mut/raw) payload that reaches mantissa parsing (length >= 10, version 1, finite form)."

var propC17 = &h.Prop[C17Case]{ID: "C17", Rule: ruleC17, Gen: genC17, Check: checkC17, Matchers: map[string]func(C17Case) bool{}}

func TestC17(t *testing.T)       { propC17.Search(t) }
func TestC17Replay(t *testing.T) { propC17.Replay(t) }

// FuzzGobDecode is the native coverage-guided leg (thorough tier): same oracle as the raw kind.
func FuzzGobDecode(f *testing.F) {
	for _, s := range []h.Spec{{F: "z"}, {F: "i", Neg: true, P: 5}, {F: "f", D: "12345678901234567890123", E: 5, P: 30, M: 3}, {F: "f", D: "1", E: -2147483648, P: 1}} {
		b, _ := s.Build().GobEncode()
		f.Add(b, uint8(0))
		f.Add(b, uint8(7))
	}
	f.Add([]byte{1, 2, 3}, uint8(0))
	f.Add([]byte{1, 2, 0, 0, 0, 5}, uint8(3))
	f.Fuzz(func(t *testing.T, b []byte, zp uint8) {
		c := C17Case{Kind: "raw", Raw: b}
		if zp > 0 {
			c.Z = &h.Spec{F: "z", P: uint(zp), M: zp % 6}
		}
		if fail := propC17.SafeCheck(c, &h.Obs{}); fail != nil {
			h.FuzzFail(t, "C17", fail, c)
		}
	})
}
