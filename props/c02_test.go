package props

import (
	"math/big"
	"strconv"
	"strings"
	"testing"

	"github.com/db47h/decimal"
	"pgregory.net/rapid"

	"verif/h"
	"verif/model"
)

// C02: Acc() truthfully reports the direction of the rounding error after
// Add, Sub, Mul, Quo, FMA, Set, SetPrec, SetInt, SetInt64, SetUint64, SetRat,
// SetMantExp, NewDecimal and base-10 Parse/SetString/UnmarshalText.

type C02Case struct {
	Op  string   `json:"op"`
	A   *C01Case `json:"a,omitempty"`   // add sub mul quo set setprec
	F   *C03Case `json:"f,omitempty"`   // fma
	I   string   `json:"i,omitempty"`   // integer argument (decimal string)
	Den string   `json:"den,omitempty"` // SetRat denominator
	Exp int64    `json:"exp,omitempty"` // NewDecimal / SetMantExp exponent
	Lit string   `json:"lit,omitempty"` // literal
	LV  *h.Spec  `json:"lv,omitempty"`  // the literal's exact value (as a spec; p, m unused)
	X   *h.Spec  `json:"x,omitempty"`   // SetMantExp mantissa
	P   uint     `json:"p"`             // receiver precision (may be 0 for setters)
	M   uint8    `json:"m"`
	Z   *h.Spec  `json:"z,omitempty"` // receiver's previous contents (nil: fresh)
}

func genBigIntString(t *rapid.T, label string, maxDigits int) string {
	switch rapid.IntRange(0, 9).Draw(t, label+".cls") {
	case 0:
		return "0"
	case 1:
		// powers of two and neighbours
		k := rapid.IntRange(0, 700).Draw(t, label+".k")
		v := new(big.Int).Lsh(big.NewInt(1), uint(k))
		v.Add(v, big.NewInt(int64(rapid.IntRange(-1, 1).Draw(t, label+".d"))))
		if rapid.Bool().Draw(t, label+".neg") {
			v.Neg(v)
		}
		return v.String()
	case 3:
		// chosen BINARY words (the radix conversion divides by 10^19 word by word): 10^19 itself and its neighbours,
		// 2^63, 2^64-1, 5*10^18, 0, 1 and uniform words, 1..12 of them
		n := rapid.IntRange(1, 12).Draw(t, label+".bw")
		if n*20 > maxDigits {
			n = maxDigits/20 + 1
		}
		v := new(big.Int)
		for i := 0; i < n; i++ {
			w := rapid.SampledFrom([]uint64{h.Base, h.Base - 1, h.Base + 1, 1 << 63, ^uint64(0), h.Base / 2, 0, 1, h.Base / 10}).Draw(t, label+".bwe")
			if rapid.IntRange(0, 2).Draw(t, label+".bwr") == 0 {
				w = rapid.Uint64().Draw(t, label+".bwu")
			}
			v.Lsh(v, 64)
			v.Or(v, new(big.Int).SetUint64(w))
		}
		if rapid.Bool().Draw(t, label+".neg") {
			v.Neg(v)
		}
		return v.String()
	case 2:
		d := h.GenRoundDigits(t, label+".rd", rapid.IntRange(1, 40).Draw(t, label+".rp"))
		d += zeros(rapid.IntRange(0, 30).Draw(t, label+".tz"))
		if rapid.Bool().Draw(t, label+".neg") {
			return "-" + d
		}
		return d
	}
	d := h.GenDigits(t, label+".dig", maxDigits)
	d += zeros(rapid.SampledFrom([]int{0, 0, 1, 19, 40}).Draw(t, label+".tz"))
	if rapid.Bool().Draw(t, label+".neg") {
		return "-" + d
	}
	return d
}

func zeros(n int) string {
	b := make([]byte, n)
	for i := range b {
		b[i] = '0'
	}
	return string(b)
}

var int64Edges = []int64{0, 1, -1, 9, 10, 99, 100, 1<<63 - 1, -1 << 63, -1<<63 + 1, 1 << 62, 999999999999999999, 1000000000000000000, 1000000000000000001, 9223372036854775807, 123456789012345678}

func genInt64(t *rapid.T, label string) int64 {
	switch rapid.IntRange(0, 3).Draw(t, label+".cls") {
	case 0:
		return rapid.SampledFrom(int64Edges).Draw(t, label+".edge")
	case 1:
		k := rapid.IntRange(0, 18).Draw(t, label+".k")
		v := int64(1)
		for i := 0; i < k; i++ {
			v *= 10
		}
		v += int64(rapid.IntRange(-1, 1).Draw(t, label+".d"))
		if rapid.Bool().Draw(t, label+".neg") {
			v = -v
		}
		return v
	}
	return rapid.Int64().Draw(t, label)
}

func genUint64(t *rapid.T, label string) uint64 {
	switch rapid.IntRange(0, 3).Draw(t, label+".cls") {
	case 0:
		return rapid.SampledFrom([]uint64{0, 1, 9, 10, 1<<64 - 1, 1 << 63, 1<<63 - 1, 9999999999999999999, 10000000000000000000, 10000000000000000001, 18446744073709551615}).Draw(t, label+".edge")
	case 1:
		k := rapid.IntRange(0, 19).Draw(t, label+".k")
		v := uint64(1)
		for i := 0; i < k; i++ {
			v *= 10
		}
		return v + uint64(rapid.IntRange(0, 1).Draw(t, label+".d")) - uint64(rapid.IntRange(0, 1).Draw(t, label+".d2"))
	}
	return rapid.Uint64().Draw(t, label)
}

// genRecvPrev draws previous contents for a setter's receiver.
func genRecvPrev(t *rapid.T, p uint, m uint8) *h.Spec {
	if rapid.IntRange(0, 2).Draw(t, "zprev") == 0 {
		return nil
	}
	var s h.Spec
	switch rapid.IntRange(0, 3).Draw(t, "zprev.form") {
	case 0:
		s = h.GenSpecial(t, "zprev", "z")
	case 1:
		s = h.GenSpecial(t, "zprev", "i")
	default:
		n := rapid.IntRange(1, 80).Draw(t, "zprev.n")
		if p > 0 && uint(n) > p {
			n = int(p)
		}
		s = h.Spec{F: "f", D: h.GenDigitsN(t, "zprev.d", n), E: h.GenExp(t, "zprev.e"), Neg: rapid.Bool().Draw(t, "zprev.neg"), Hist: h.GenHist(t, "zprev.h")}
	}
	s.P, s.M = p, m
	if s.F == "f" && p == 0 {
		s.F, s.D, s.E = "z", "", 0
	}
	return &s
}

func genC02(t *rapid.T) C02Case {
	c := C02Case{}
	c.Op = rapid.SampledFrom([]string{"arith", "arith", "arith", "fma", "fma", "setint", "setint64", "setuint64", "setrat", "setmantexp", "newdecimal", "parse", "setstring", "unmarshaltext"}).Draw(t, "op")
	switch c.Op {
	case "arith":
		for {
			a := genC01(t)
			if a.Op != "neg" && a.Op != "abs" {
				c.A = &a
				c.P, c.M = a.P, a.M
				return c
			}
		}
	case "fma":
		f := genFMA(t, false)
		f.Zone = false // (the zone of former finding F-03c - product exponent out of range, finite addend - is checked like everything else)
		c.F = &f
		c.P, c.M = f.P, f.M
		return c
	}
	c.M = h.GenMode(t, "zmode")
	switch rapid.IntRange(0, 5).Draw(t, "pcls") {
	case 0:
		c.P = 0
	case 1:
		c.P = uint(rapid.IntRange(1, 4).Draw(t, "p"))
	default:
		c.P = uint(rapid.IntRange(1, 60).Draw(t, "p"))
	}
	switch c.Op {
	case "setint":
		c.I = genBigIntString(t, "i", 3000)
		if h.Rare(t, "hugeint", 40) {
			// tens of thousands of digits: size estimates computed in 32-bit arithmetic wrap up there
			b := rapid.SampledFrom([]uint{65536, 131072, 142675, 142676, 142677, 200003, 262144, 262145}).Draw(t, "hugebits")
			v := new(big.Int).Lsh(big.NewInt(1), b)
			v.Add(v, big.NewInt(int64(rapid.IntRange(-5, 12345).Draw(t, "hugedelta"))))
			if rapid.Bool().Draw(t, "hugeneg") {
				v.Neg(v)
			}
			c.I = v.String()
		}
	case "setint64":
		c.I = big.NewInt(genInt64(t, "i")).String()
	case "setuint64":
		c.I = new(big.Int).SetUint64(genUint64(t, "u")).String()
	case "newdecimal":
		c.I = big.NewInt(genInt64(t, "i")).String()
		switch rapid.IntRange(0, 4).Draw(t, "expcls") {
		case 0, 1:
			c.Exp = int64(rapid.IntRange(-60, 60).Draw(t, "exp"))
		case 2:
			c.Exp = model.MaxExp - int64(rapid.IntRange(-3, 45).Draw(t, "exp"))
		case 3:
			c.Exp = model.MinExp - int64(rapid.IntRange(-45, 25).Draw(t, "exp"))
		default:
			c.Exp = rapid.Int64Range(-1<<33, 1<<33).Draw(t, "exp")
		}
		c.P, c.M = 0, 0
	case "setrat":
		c.I = genBigIntString(t, "num", 300)
		switch rapid.IntRange(0, 3).Draw(t, "dencls") {
		case 0:
			// terminating: 2^i 5^j
			v := new(big.Int).Exp(big.NewInt(2), big.NewInt(int64(rapid.IntRange(0, 80).Draw(t, "i2"))), nil)
			v.Mul(v, new(big.Int).Exp(big.NewInt(5), big.NewInt(int64(rapid.IntRange(0, 80).Draw(t, "j5"))), nil))
			c.Den = v.String()
		case 1:
			c.Den = rapid.SampledFrom([]string{"1", "3", "7", "9", "11", "13", "99", "999999999999999999999", "3000", "7000000"}).Draw(t, "den")
		default:
			c.Den = h.GenDigits(t, "den", 300) + zeros(rapid.SampledFrom([]int{0, 0, 3}).Draw(t, "dtz"))
		}
	case "setmantexp":
		x := h.GenAny(t, "mant", 200)
		x.Hist = ""
		if rapid.Bool().Draw(t, "manthist") {
			// the mantissa's own accuracy history (a zero from an underflow, an infinity from an overflow, a finite value
			// reached through an inexact rounding) must not show in the result's accuracy (F-38)
			x.Hist = "acc"
		}
		c.X = &x
		c.P, c.M = x.P, x.M
		switch rapid.IntRange(0, 4).Draw(t, "expcls") {
		case 0, 1:
			c.Exp = int64(rapid.IntRange(-60, 60).Draw(t, "exp"))
		case 2:
			c.Exp = model.MaxExp - x.E + int64(rapid.IntRange(-3, 3).Draw(t, "exp"))
		case 3:
			c.Exp = model.MinExp - x.E + int64(rapid.IntRange(-3, 3).Draw(t, "exp"))
		default:
			c.Exp = rapid.Int64Range(-1<<33, 1<<33).Draw(t, "exp")
		}
	case "parse", "setstring", "unmarshaltext":
		l := h.GenDecLiteral(t, "lit", 300, c.Op != "parse" || true)
		c.Lit = l.S
		lv := h.SpecOf(l.V, 0, 0)
		c.LV = &lv
		if rapid.IntRange(0, 9).Draw(t, "pow5") == 0 {
			// base-10 mantissa with a binary exponent: d x 5^v written out, then p(v+k): the short decimal d x 2^k x 10^v,
			// mostly representable (Exact expected), sometimes one digit too long for the receiver
			d := int64(rapid.IntRange(1, 9999).Draw(t, "p5d"))
			v := int64(rapid.IntRange(1, 400).Draw(t, "p5v"))
			k := int64(rapid.IntRange(0, 6).Draw(t, "p5k"))
			m := new(big.Int).Mul(big.NewInt(d), new(big.Int).Exp(big.NewInt(5), big.NewInt(v), nil))
			neg := rapid.Bool().Draw(t, "p5neg")
			c.Lit = map[bool]string{false: "", true: "-"}[neg] + m.String() + "p" + strconv.FormatInt(v+k, 10)
			val := model.FromInt(new(big.Int).Lsh(big.NewInt(d), uint(k)), v)
			val.Neg = neg
			lv := h.SpecOf(val, 0, 0)
			c.LV = &lv
			if rapid.Bool().Draw(t, "p5p") {
				c.P = uint(len(val.Digits) + rapid.IntRange(-1, 1).Draw(t, "p5pp"))
				if c.P < 1 {
					c.P = 1
				}
			}
		} else if rapid.IntRange(0, 7).Draw(t, "pow2near") == 0 {
			// base-10 mantissa with a binary exponent of any size whose value lies a hair from a number of P digits (the
			// constructed literals of C12): whatever is stored, the accuracy must be the sign of (stored - exact). (The
			// exact value comes from the 700-bit reference: LV is not used.)
			pc := genC12Pow2Near(t)
			c.Lit, c.P, c.M, c.LV = pc.S, pc.P, pc.M, nil
		}
	}
	c.Z = genRecvPrev(t, c.P, c.M)
	return c
}

func ratOf(num, den string) *big.Rat {
	n, ok1 := new(big.Int).SetString(num, 10)
	d, ok2 := new(big.Int).SetString(den, 10)
	if !ok1 || !ok2 || d.Sign() == 0 {
		panic(h.BuildError{Msg: "bad rational " + num + "/" + den})
	}
	return new(big.Rat).SetFrac(n, d)
}

func bigOf(s string) *big.Int {
	n, ok := new(big.Int).SetString(s, 10)
	if !ok {
		panic(h.BuildError{Msg: "bad integer " + s})
	}
	return n
}

// setterRecv builds a setter's receiver (fresh or with previous contents).
func setterRecv(c C02Case) *decimal.Decimal {
	if c.Z != nil {
		return c.Z.Build()
	}
	return mkRecv(c.P, c.M)
}

// c02Run executes the case; it returns the receiver snapshot, the exact value,
// and ok=false if the operation legitimately produced no rounded value
// (rejected literal).
func c02Run(c C02Case, o *h.Obs) (got h.Snap, exact model.X, ok bool, fail *h.Fail) {
	switch c.Op {
	case "arith":
		_, exact = c01Model(*c.A)
		if c.A.Op == "quo" {
			// enough digits to compare against whatever was stored
			exact = model.QuoX(c.A.X.Val(), c.A.Y.Val(), uint64(c.A.P)+3)
		}
		got = h.Read(c01Exec(*c.A))
		o.Label("arith:" + c.A.Op)
		return got, exact, true, nil
	case "fma":
		f := *c.F
		f.Alias = ""
		xv, yv, uv := f.X.Val(), f.Y.Val(), f.U.Val()
		exact = model.AddXP(model.MulX(xv, yv).Val, uv, uint64(f.P))
		z, x, y, u, _ := fmaVars(f)
		z.FMA(x, y, u)
		got = h.Read(z)
		if false && f.Zone {
			// (historic: inside the zone of former finding F-03c: the accuracy must be right for the value delivered, or be the
			// one that goes with range-checking the product before the addition (the listed finding)
			o.Label("f03c-zone")
			two := model.FmaRangeChecked(xv, yv, uv, uint64(f.P), model.Mode(f.M))
			if !two.NaN && got.Malformed == "" && got.Val().Equal(two.V) && model.Acc(got.Acc) == two.Acc {
				o.Label("f03c-zone:range-checked-product")
				return got, exact, false, nil
			}
		}
		return got, exact, true, nil
	}
	z := setterRecv(c)
	switch c.Op {
	case "setint":
		i := bigOf(c.I)
		z.SetInt(i)
		exact = model.X{Val: model.FromInt(i, 0)}
	case "setint64":
		i := bigOf(c.I)
		z.SetInt64(i.Int64())
		exact = model.X{Val: model.FromInt(i, 0)}
	case "setuint64":
		i := bigOf(c.I)
		z.SetUint64(i.Uint64())
		exact = model.X{Val: model.FromInt(i, 0)}
	case "newdecimal":
		i := bigOf(c.I)
		z = decimal.NewDecimal(i.Int64(), int(c.Exp))
		exact = model.X{Val: model.FromInt(i, c.Exp)}
	case "setrat":
		r := ratOf(c.I, c.Den)
		z.SetRat(r)
		exact = model.FromRat(r, uint64(z.Prec())+3)
	case "setmantexp":
		x := c.X.Build()
		if c.Z == nil && c.P%2 == 1 {
			z = x // z and mant may be the same
			o.Label("setmantexp:z=mant")
		}
		z.SetMantExp(x, int(c.Exp))
		v := c.X.Val()
		if v.Form == model.Finite {
			v.Exp += c.Exp
		}
		exact = model.X{Val: v}
		if v.Form != model.Finite {
			o.Label("setmantexp:non-finite-mantissa")
			if c.X.Hist == "acc" {
				o.NonTrivial()
			}
		}
	case "parse", "setstring", "unmarshaltext":
		var err error
		okk := true
		switch c.Op {
		case "parse":
			_, _, err = z.Parse(c.Lit, 0)
		case "setstring":
			_, okk = z.SetString(c.Lit)
		case "unmarshaltext":
			err = z.UnmarshalText([]byte(c.Lit))
		}
		if err != nil || !okk {
			o.Label(c.Op + ":rejected")
			return h.Read(z), exact, false, nil
		}
		if c.LV == nil {
			body := strings.TrimPrefix(c.Lit, "-")
			i := strings.IndexByte(body, 'p')
			if i < 0 {
				return got, exact, false, h.Failf("bad-case", "literal %q without a value", c.Lit)
			}
			m, ok1 := new(big.Int).SetString(body[:i], 10)
			k, e2 := strconv.ParseInt(body[i+1:], 10, 64)
			ex, ok2 := model.X{}, false
			if ok1 && e2 == nil {
				ex, ok2 = c12Pow2Exact(m, k, int(z.Prec())+125)
			}
			if !ok2 {
				o.Label(c.Op + ":no-reference")
				return h.Read(z), exact, false, nil
			}
			ex.Neg = strings.HasPrefix(c.Lit, "-")
			o.Label(c.Op + ":decimal-mantissa-binary-exponent")
			return h.Read(z), ex, true, nil
		}
		exact = model.X{Val: c.LV.Val()}
	default:
		return got, exact, false, h.Failf("bad-case", "op %q", c.Op)
	}
	return h.Read(z), exact, true, nil
}

func checkC02(c C02Case, o *h.Obs) *h.Fail {
	o.Label(c.Op)
	if c.Op == "arith" && c.A != nil && strings.HasPrefix(c.A.Op, "grid:") {
		return checkC01(*c.A, o) // replay of an enumerated case
	}
	got, exact, ok, fail := c02Run(c, o)
	if fail != nil {
		return fail
	}
	if got.Malformed != "" {
		return h.Failf("malformed", "%s: %v", c.Op, got)
	}
	if !ok {
		return nil
	}
	want := model.AccOf(got.Val(), exact)
	o.Labelf("acc:%v", want)
	if got.Form != model.Finite && exact.Form == model.Finite {
		o.Label("range:" + map[model.Form]string{model.Zero: "underflow", model.Inf: "overflow"}[got.Form])
	}
	if want != model.Exact {
		o.NonTrivial()
	} else if exact.Form == model.Finite && uint(len(exact.Digits)) == got.Prec {
		o.Label("exact-by-a-hair")
		o.NonTrivial()
	} else if c.Op == "arith" && c.A.Op == "quo" || c.Op == "setrat" {
		o.Label("exact-quotient")
		o.NonTrivial()
	}
	if model.Acc(got.Acc) != want {
		return h.Failf("acc", "%s: stored %v, exact %v: Acc()=%v, sign(stored-exact)=%v (receiver prec %d, %v)", c.Op, got.Val(), exact, model.Acc(got.Acc), want, got.Prec, model.Mode(got.Mode))
	}
	return nil
}

const ruleC02 = "rapid-generated operation instances for every operation the property lists: arithmetic cases from the C01 generator (add/sub/mul/quo/set/setprec), FMA cases from the C03 generator (finite operands), SetInt (big.Int up to 3000 digits, powers of two +-1, rounding patterns), SetInt64/SetUint64 (edges and uniform), NewDecimal (exponents driving over/underflow), SetRat (terminating, repeating, long denominators), SetMantExp (offsets landing inside and outside the range), base-10 literals with known value through Parse/SetString/UnmarshalText; receivers fresh or holding previous zero/finite/infinite contents. Oracle: Acc() == sign(stored value as read back - exact value), both directions (Exact iff equal). Non-trivial = the exact value was not representable (acc != Exact expected), or it has exactly Prec digits, or it is an exact quotient. Deliberately not asserted: accuracy after SetMantExp of a non-finite mantissa (documented attribute copy), Neg/Abs/Sqrt (not listed in the property). Cases whose exact FMA product exponent leaves the range are excluded while F-03c is a listed known finding."

var propC02 = &h.Prop[C02Case]{ID: "C02", Rule: ruleC02, Gen: genC02, Check: checkC02,
	Matchers: map[string]func(C02Case) bool{"fma-product-exp-out-of-range": func(c C02Case) bool { return c.F != nil && !c.F.Zone && fmaProductOutOfRange(*c.F) }}}

func TestC02(t *testing.T)       { propC02.Search(t) }
func TestC02Replay(t *testing.T) { propC02.Replay(t) }

// TestC02Grid: the accuracy of the enumerated huge-gap sums (see c01HugeGapCases).
func TestC02Grid(t *testing.T) {
	defer h.WriteStats("C02")
	n := 0
	for _, a := range c01HugeGapCases() {
		a := a
		c := C02Case{Op: "arith", A: &a, P: a.P, M: a.M}
		o := &h.Obs{}
		o.Label("huge-gap")
		if f := propC02.SafeCheck(c, o); f != nil {
			h.ReportGridFail(t, "C02", f, mustJSON(c))
		}
		h.RecordGrid("C02", o, c)
		n++
	}
	h.AddExtra("C02", "huge_gap_cases_enumerated", n)
	// integers of 80 000 and 100 003 digits, both signs, one unit below / at / above a power of ten, rounded to a few
	// digits by SetInt and SetRat: the accuracy is the sign of (stored - exact) for negative arguments too
	// (330 000 digits: just above 2^20 bits, where an implementation might start to treat integers differently; fewer
	// combinations there, the conversion is quadratic)
	sizes := []int{80000, 100003, 330000}
	if h.Thorough() {
		sizes = append(sizes, 700001)
	}
	for _, d := range sizes {
		p := new(big.Int).Exp(big.NewInt(10), big.NewInt(int64(d)), nil)
		for _, delta := range []int64{-1, 0, 1} {
			for _, neg := range []bool{false, true} {
				v := new(big.Int).Add(p, big.NewInt(delta))
				if neg {
					v.Neg(v)
				}
				for _, m := range []uint8{uint8(model.ToNearestEven), uint8(model.ToZero), uint8(model.ToNegativeInf)} {
					if d > 300000 && (delta == 0 || m == uint8(model.ToNegativeInf) && !neg) {
						continue
					}
					c := C02Case{Op: "setint", I: v.String(), P: uint(3 + d%37), M: m}
					if delta == 0 && m != 0 {
						c = C02Case{Op: "setrat", I: v.String(), Den: "1", P: uint(3 + d%37), M: m}
					}
					o := &h.Obs{}
					o.Label("giant-integer")
					if f := propC02.SafeCheck(c, o); f != nil {
						h.ReportGridFail(t, "C02", f, mustJSON(c))
					}
					h.RecordGrid("C02", o, struct {
						Op     string
						Digits int
						Delta  int64
						Neg    bool
						M      uint8
					}{c.Op, d, delta, neg, m})
					n++
				}
			}
		}
	}
	// the million-digit carry cases check value and accuracy together (see c01CarryCases)
	if f := c01CarryCases(); f != nil {
		h.ReportGridFail(t, "C02", f, []byte(`{"op":"arith","a":{"op":"grid:carry-cases"}}`))
	}
}
