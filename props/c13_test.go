package props

import (
	"fmt"
	"github.com/db47h/decimal"
	"math"
	"math/big"
	"runtime/debug"
	"strconv"
	"strings"
	"testing"

	"pgregory.net/rapid"

	"verif/h"
	"verif/model"
)

// C13: formatting prints the correctly rounded digits in strconv/fmt layout.

type C13Case struct {
	Kind    string `json:"kind"` // "f64": differential with strconv/fmt; "ref": reference formatter
	Bits    uint64 `json:"bits,omitempty"`
	X       h.Spec `json:"x"` // value (for "f64": the exact expansion of the float, mode ToNearestEven)
	Verb    string `json:"verb"`
	Prec    int    `json:"prec"` // -1: shortest / none given
	HasPrec bool   `json:"hasprec,omitempty"`
	Flags   string `json:"flags,omitempty"`
	Width   int    `json:"width,omitempty"` // 0: none
	Pad     int    `json:"pad,omitempty"`   // > 0: the width is chosen so that exactly Pad padding bytes are needed
}

func float64Spec(f float64) h.Spec {
	switch {
	case math.IsInf(f, 0):
		return h.Spec{F: "i", Neg: f < 0}
	case f == 0:
		return h.Spec{F: "z", Neg: math.Signbit(f)}
	}
	r, _ := new(big.Float).SetFloat64(f).Rat(nil)
	x := model.FromRat(r, 800)
	if x.Sticky {
		panic("float64 expansion not exact")
	}
	return h.SpecOf(x.Val, uint(len(x.Digits)), 0)
}

func genFlags(t *rapid.T) string {
	s := ""
	if rapid.IntRange(0, 3).Draw(t, "fl+") == 0 {
		s += "+"
	}
	if rapid.IntRange(0, 3).Draw(t, "fl ") == 0 {
		s += " "
	}
	switch rapid.IntRange(0, 7).Draw(t, "flpad") {
	case 0:
		s += "0"
	case 1:
		s += "-"
	case 2:
		s += "-0" // '-' wins
	case 3:
		s += "0-"
	}
	return s
}

// c13Padded turns a short value into one held in a long mantissa (as exact quotients, SetInt, SetRat, SetFloat and
// cancellations at a large precision leave them): 3 to 40 words, all but the top ones zero. A formatter that looks at a
// part of the mantissa only, or derives a sticky bit from the words below it, shows on ties and exact values.
func c13Padded(t *rapid.T, x *h.Spec, label string) {
	if rapid.IntRange(0, 3).Draw(t, label+".padded") != 0 {
		return
	}
	x.P = uint(len(x.D)) + uint(19*rapid.IntRange(2, 40).Draw(t, label+".padwords")+rapid.IntRange(0, 18).Draw(t, label+".padoff"))
	x.Hist = "padfull"
}

func genC13(t *rapid.T) C13Case {
	c := C13Case{}
	if h.Rare(t, "badverb", 40) {
		c.Kind = "badverb"
		c.Bits = genFloat64Bits(t, "f")
		if math.IsNaN(math.Float64frombits(c.Bits)) {
			c.Bits = math.Float64bits(-2.5)
		}
		c.X = float64Spec(math.Float64frombits(c.Bits))
		c.Verb = string(rapid.SampledFrom([]byte("FPBdzZ?%vs q#0\x00\xff")).Draw(t, "badverb.c"))
		c.Prec = rapid.SampledFrom([]int{-1, -1, -2, -1000, math.MinInt32, 0, 1, 17, 400}).Draw(t, "badverb.p")
		c.HasPrec = true
		return c
	}
	if rapid.IntRange(0, 2).Draw(t, "kind") == 0 {
		c.Kind = "f64"
		c.Bits = genFloat64Bits(t, "f")
		f := math.Float64frombits(c.Bits)
		if math.IsNaN(f) {
			c.Bits = math.Float64bits(0.0087890625)
			f = 0.0087890625
		}
		switch rapid.IntRange(0, 3).Draw(t, "decimalish") {
		case 0:
			// decimal-looking values and dyadic fractions near rounding boundaries
			f = float64(rapid.IntRange(-99999, 99999).Draw(t, "num")) / math.Pow10(rapid.IntRange(0, 8).Draw(t, "den"))
			c.Bits = math.Float64bits(f)
		case 1:
			f = float64(rapid.IntRange(-4096, 4096).Draw(t, "dy")) / float64(int64(1)<<rapid.IntRange(0, 30).Draw(t, "sh"))
			c.Bits = math.Float64bits(f)
		}
		c.X = float64Spec(math.Float64frombits(c.Bits))
	} else {
		c.Kind = "ref"
		if rapid.IntRange(0, 7).Draw(t, "leadtie") == 0 {
			// rounding position exactly at (or just above) the leading digit of a value that fills its precision:
			// 5, 50..0d, 49..9d, 51, 949, 95 ... printed with 'f' and as many fractional digits as put the
			// position there
			zl := strings.Repeat("0", rapid.SampledFrom([]int{0, 1, 2, 5, 16, 17, 18, 19, 31, 32, 33, 34, 36, 37, 38, 55, 56, 57, 80}).Draw(t, "lt.z"))
			nl := strings.Repeat("9", rapid.SampledFrom([]int{0, 1, 2, 5, 16, 17, 18, 19, 31, 32, 33, 34, 36, 37, 38, 55, 56, 57, 80}).Draw(t, "lt.n"))
			d := string(byte('1' + rapid.IntRange(0, 8).Draw(t, "lt.d")))
			dig := rapid.SampledFrom([]string{"5", "5" + zl + d, "4" + nl + d, "51", "49", "9" + nl + "5", "95", "5" + zl + "5", "4" + nl + "9" + d}).Draw(t, "lt.dig")
			c.X = h.Spec{F: "f", D: strings.TrimRight(dig, "0"), E: int64(rapid.IntRange(-30, 3).Draw(t, "lt.e")), Neg: rapid.Bool().Draw(t, "lt.neg"), M: h.GenMode(t, "lt.m")}
			c.X.P = uint(len(c.X.D)) + uint(rapid.SampledFrom([]int{0, 0, 0, 1, 7}).Draw(t, "lt.p"))
			c13Padded(t, &c.X, "lt")
			c.Verb = rapid.SampledFrom([]string{"f", "F", "f", "e", "g"}).Draw(t, "lt.verb")
			c.HasPrec = true
			c.Prec = int(-c.X.E) + rapid.SampledFrom([]int{0, 0, 0, -1, 1}).Draw(t, "lt.off")
			if c.Prec < 0 {
				c.Prec = 0
			}
			c.Flags = genFlags(t)
			return c
		}
		if rapid.IntRange(0, 2).Draw(t, "small") == 0 {
			p := rapid.IntRange(1, 12).Draw(t, "rp")
			c.X = h.Spec{F: "f", D: h.GenRoundDigits(t, "x", p), E: int64(rapid.IntRange(-45, 25).Draw(t, "xe")), Neg: rapid.Bool().Draw(t, "neg"), M: h.GenMode(t, "xm")}
			c.X.P = uint(len(c.X.D)) + uint(rapid.IntRange(0, 5).Draw(t, "xp"))
			c13Padded(t, &c.X, "x")
		} else {
			c.X = h.GenAny(t, "x", 300)
			if c.X.F == "f" {
				if lim := uint(len(c.X.D)) + 60; c.X.P > lim {
					c.X.P = lim
				}
			}
		}
	}
	c.Verb = rapid.SampledFrom([]string{"e", "E", "f", "f", "F", "g", "G", "v", "p", "b"}).Draw(t, "verb")
	if c.Kind == "f64" && (c.Verb == "p" || c.Verb == "b") {
		c.Verb = "f"
	}
	if c.X.F == "f" && (c.Verb == "f" || c.Verb == "F") && (c.X.E > 5000 || c.X.E < -5000) {
		c.X.E = h.GenExpModerate(t, "fe", 5000)
	}
	c.Prec = -1
	if rapid.IntRange(0, 4).Draw(t, "hasprec") > 0 {
		c.HasPrec = true
		c.Prec = rapid.IntRange(0, 40).Draw(t, "prec")
		if rapid.IntRange(0, 2).Draw(t, "near") == 0 && c.X.F == "f" {
			// around the value's own digit count / the position of its leading digit
			base := len(c.X.D)
			if c.Verb == "f" || c.Verb == "F" {
				base = int(-c.X.E)
			}
			c.Prec = base + rapid.IntRange(-3, 3).Draw(t, "precnear")
			if c.Prec < 0 {
				c.Prec = 0
			}
			if c.Prec > 400 {
				c.Prec = 400
			}
		}
	}
	c.Flags = genFlags(t)
	if rapid.Bool().Draw(t, "haswidth") {
		c.Width = rapid.IntRange(1, 40).Draw(t, "width")
		if rapid.IntRange(0, 7).Draw(t, "padcls") == 0 {
			// padding amounts around the sizes an implementation might write in chunks
			c.Pad = rapid.SampledFrom([]int{31, 32, 33, 63, 64, 65, 127, 128, 129, 255, 256, 257, 384, 512, 1000, 1024, 2048, 4095, 4096, 4097, 8191, 8192, 8193, 8200, 16384, 65537, 300000}).Draw(t, "pad")
		}
	}
	return c
}

func (c C13Case) spec() string {
	s := "%" + c.Flags
	if c.Width > 0 {
		s += strconv.Itoa(c.Width)
	}
	if c.HasPrec {
		s += "." + strconv.Itoa(c.Prec)
	}
	return s + c.Verb
}

// excludedSpec: flag combinations where fmt's printing of built-in floats is
// not observable by a fmt.Formatter (math/big.Float behaves like Decimal).
func (c C13Case) excludedSpec() string {
	if c.Verb == "v" && (strings.Contains(c.Flags, "+") || strings.Contains(c.Flags, " ")) {
		return "plusV"
	}
	return ""
}

func checkC13(c C13Case, o *h.Obs) *h.Fail {
	x := c.X.Build()
	xv := c.X.Val()
	mode := model.Mode(c.X.M)
	o.Label(c.Kind + ":" + c.Verb)
	if c.Kind == "badverb" {
		// a format byte that is none of e E f g G p b, any precision: no property says what the text must be (the
		// library answers "%" followed by the byte, as strconv does), but the call must answer - a panic is
		// reported by the runner (C04: nothing but ErrNaN panics) - and Append must add exactly Text's bytes to
		// whatever the buffer holds
		want := x.Text(c.Verb[0], c.Prec)
		for _, buf := range [][]byte{nil, {}, make([]byte, 0, 1), append(make([]byte, 0, 2), 'x', '='), append(make([]byte, 0, 64), 'x', '=')} {
			prefix := string(buf)
			if got := string(x.Append(buf, c.Verb[0], c.Prec)); got != prefix+want {
				return h.Failf("badverb", "Append(%q (cap %d), %q, %d) of %v = %q, Text gives %q", prefix, cap(buf), c.Verb, c.Prec, xv, h.FirstN(got, 200), h.FirstN(want, 200))
			}
		}
		if sc := strconv.FormatFloat(math.Float64frombits(c.Bits), c.Verb[0], c.Prec, 64); sc == want {
			o.Label("badverb:same-as-strconv")
		}
		return nil
	}
	textVerb := c.Verb
	switch textVerb {
	case "F":
		textVerb = "f"
	case "v":
		textVerb = "g"
	}
	// effective precision passed to Text by Format
	fprec := c.Prec
	if !c.HasPrec {
		switch textVerb {
		case "e", "E", "f":
			fprec = 6
		default:
			fprec = -1
		}
	}
	if xv.Form == model.Finite && c.HasPrec {
		var kept int64
		switch textVerb {
		case "e", "E":
			kept = int64(c.Prec) + 1
		case "f":
			kept = xv.Exp + int64(c.Prec)
		case "g", "G":
			kept = int64(c.Prec)
			if kept == 0 {
				kept = 1
			}
		}
		switch {
		case textVerb == "p" || textVerb == "b":
		case kept <= 0:
			o.Label("position-at-or-above-leading-digit")
			o.NonTrivial()
		case kept < int64(len(xv.Digits)):
			o.Label("rounds")
			o.NonTrivial()
		}
	}
	if c.Width > 0 || c.Flags != "" {
		o.NonTrivial()
	}

	// (2) Text against the reference formatter, always
	want := model.Format(xv, mode, textVerb[0], fprec, c.X.P)
	got := x.Text(textVerb[0], fprec)
	// Append must add exactly Text's bytes to whatever the buffer holds already (prefixes that look like parts
	// of a number included), without touching the prefix
	for _, prefix := range []string{"", "v1.0: ", "-0.5e+07 ", "x=", "9.", "Inf"} {
		if (len(c.X.D)+c.Prec+len(prefix))%3 != 0 && prefix != "" {
			continue // a third of the prefixes per case
		}
		buf := append(make([]byte, 0, len(prefix)+3), prefix...)
		if app := string(x.Append(buf, textVerb[0], fprec)); app != prefix+got {
			return h.Failf("append", "Append(%q, %q, %d) of %v = %q, Text gives %q", prefix, textVerb, fprec, xv, h.FirstN(app, 300), h.FirstN(got, 300))
		}
	}
	// ... and whatever room the buffer has left: exactly enough, one byte more or less, and the sizes an implementation
	// that writes digits into the spare capacity first would compute from the mantissa length (19 bytes per word)
	if (len(c.X.D)+c.Prec)%4 == 0 || textVerb == "p" || textVerb == "b" {
		words := (len(c.X.D) + 18) / 19
		for _, pre := range []string{"", "-", "x"} {
			for _, spare := range []int{len(got) - 1, len(got), len(got) + 1, len(got) + 2, 19 * words, 19*words + 1, 19*words + 2, 19*words + 3, 19*words + 4, 19*(words+1) + 1} {
				if spare < 0 {
					continue
				}
				buf := make([]byte, len(pre), len(pre)+spare)
				copy(buf, pre)
				if app := string(x.Append(buf, textVerb[0], fprec)); app != pre+got {
					return h.Failf("append-capacity", "Append(%q with %d spare bytes, %q, %d) of %v = %q, Text gives %q", pre, spare, textVerb, fprec, xv, h.FirstN(app, 300), h.FirstN(got, 300))
				}
			}
		}
	}
	if got != want {
		return h.Failf("text", "Text(%q, %d) of %v (mode %v, prec %d) = %q, reference %q", textVerb, fprec, xv, mode, c.X.P, h.FirstN(got, 300), h.FirstN(want, 300))
	}
	// Format == fmt layout rules applied to the body
	if c.Pad > 0 {
		c.Width = len(model.FmtLayout(want, strings.Contains(c.Flags, "+"), strings.Contains(c.Flags, " "), false, false, 0)) + c.Pad
		o.Label("pad-exact")
	}
	spec := c.spec()
	fgot := fmt.Sprintf(spec, x)
	ex := c.excludedSpec()
	if strings.Contains(c.Flags, "-") && strings.Contains(c.Flags, "0") {
		o.Label("minus+zero")
	}
	if c.Verb == "p" {
		// fmt handles %p (pointer) itself and never calls a Formatter for it
		o.Label("excluded:fmt-%p-is-pointer")
	} else {
		plus, space := strings.Contains(c.Flags, "+"), strings.Contains(c.Flags, " ")
		if ex == "plusV" {
			o.Label("excluded-from-fmt-differential:" + ex)
		}
		fwant := model.FmtLayout(want, plus, space, strings.Contains(c.Flags, "0"), strings.Contains(c.Flags, "-"), c.Width)
		if fgot != fwant {
			return h.Failf("format", "Sprintf(%q) of %v = %q, fmt layout of the reference digits is %q", spec, xv, h.FirstN(fgot, 300), h.FirstN(fwant, 300))
		}
	}
	if c.Kind != "f64" {
		return nil
	}
	// (1) differential with the standard library on the exact expansion of a float64
	f := math.Float64frombits(c.Bits)
	if c.HasPrec {
		if sw := strconv.FormatFloat(f, textVerb[0], c.Prec, 64); got != sw && !(math.IsInf(f, 1) && got == "+Inf") {
			return h.Failf("strconv", "Text(%q, %d) of float64 %v (%s) = %q, strconv.FormatFloat gives %q", textVerb, c.Prec, f, xv, got, sw)
		}
	}
	if ex == "" && (c.HasPrec || textVerb == "e" || textVerb == "E" || textVerb == "f") {
		o.Label("fmt-differential")
		if sw := fmt.Sprintf(spec, f); fgot != sw {
			return h.Failf("fmt", "Sprintf(%q) of float64 %v: Decimal %q, fmt %q", spec, f, fgot, sw)
		}
		// third-party cross-check of the layout emulation itself
		body := strconv.FormatFloat(f, textVerb[0], fprec, 64)
		if lay := model.FmtLayout(body, strings.Contains(c.Flags, "+"), strings.Contains(c.Flags, " "), strings.Contains(c.Flags, "0"), strings.Contains(c.Flags, "-"), c.Width); lay != fmt.Sprintf(spec, f) {
			return h.Failf("INFRA-layout", "layout emulation disagrees with fmt for %q of %v: %q vs %q", spec, f, lay, fmt.Sprintf(spec, f))
		}
	}
	return nil
}

const ruleC13 = "rapid-generated (value, verb/format, precision -1..40 or near the value's digit count / leading-digit position, flags from {+, space, 0, -}, width 0..40). Append onto prefixes that look like parts of a number ('v1.0: ', '-0.5e+07 ', '9.', 'Inf') must equal prefix + Text, also into buffers whose spare capacity is the output length -1..+2 or 19 bytes per mantissa word +0..+4. Two oracles. (f64) the value is the exact decimal expansion (<= 767 digits) of a float64 (uniform bits, subnormals, extremes, decimal-looking values n/10^k, dyadic fractions, +-0, +-Inf), mode ToNearestEven: Text(c,p) == strconv.FormatFloat(f,c,p,64) for p >= 0 and fmt.Sprintf(spec, x) == fmt.Sprintf(spec, f). (ref) any Decimal incl. dirty zeros/infinities and 1-12 digit values with tie/all-nines patterns at exponents -45..25 (a quarter of them held in zero-padded mantissas of 3..40 words), under its own rounding mode: Text == reference formatter (round once with the reference rounding at the requested position, which may lie at or above the leading digit, then strconv's e/f/g layout rules; p and b per the Text documentation), and Format == fmt's sign/width/flag rules applied to that body (the emulation is itself cross-checked against fmt on every f64 case). In one case in eight with a width the width is chosen from the formatted length so that the padding is exactly 31..33, 63..65, 127..129, 255..257, 384, 512, 1000, 1024, 2048, 4095..4097, 8191..8193, 8200, 16384, 65537 or 300000 bytes. '-' together with '0' is checked like every other combination ('-' wins, as in fmt). One case in forty gives Text/Append a format byte outside e E f g G p b (with precisions from MinInt32 to 400, buffers of capacity 0, 1, 2 and 64): the call must return (no panic) and Append must equal prefix + Text; whether the text equals strconv.FormatFloat's answer for an unknown byte is counted, not demanded. Excluded by construction and counted: '+'/' ' with %v in the fmt differential (fmt's plusV), 'f' with |exp| > 5000. Non-trivial = the value has more digits than requested, or the rounding position is at/above the leading digit, or flags/width are non-default."

// carryPastMaxExp: rounding x at the requested position carries into a power of
// ten whose exponent is MaxExp+1, which the temporary Decimal used by Append
// cannot hold (known finding F-18).
func carryPastMaxExp(c C13Case) bool {
	if c.X.F != "f" || c.X.E != model.MaxExp || !c.HasPrec && (c.Verb == "g" || c.Verb == "G" || c.Verb == "v") {
		return false
	}
	prec := c.Prec
	if !c.HasPrec {
		prec = 6
	}
	var kept int64
	switch c.Verb {
	case "e", "E":
		kept = int64(prec) + 1
	case "f", "F":
		kept = c.X.E + int64(prec)
	case "g", "G", "v":
		kept = int64(prec)
		if kept == 0 {
			kept = 1
		}
	default:
		return false
	}
	r := model.RoundAt(c.X.Val(), kept, model.Mode(c.X.M))
	return r.Form == model.Finite && r.Exp > model.MaxExp
}

var propC13 = &h.Prop[C13Case]{ID: "C13", Rule: ruleC13, Gen: genC13, Check: checkC13, Matchers: map[string]func(C13Case) bool{"text-carry-past-maxexp": carryPastMaxExp}}

func TestC13(t *testing.T)       { propC13.Search(t) }
func TestC13Replay(t *testing.T) { propC13.Replay(t) }

// TestC13Grid: the f layout of values with a million zeros before or after the digits (the generated cases keep
// |exponent| below 5000 for f, whose output is as long as the exponent is large): expected text built by hand.
func TestC13Grid(t *testing.T) {
	defer h.WriteStats("C13")
	n := 0
	for _, e := range []int{1000003, 1<<20 + 1, 2500000} {
		for _, prec := range []int{0, 2, -1} {
			x := h.Spec{F: "f", D: "123", E: int64(e + 3), P: 3, M: 0, Neg: n%2 == 1}.Build() // 123 x 10^e
			want := "123" + strings.Repeat("0", e)
			if prec > 0 {
				want += "." + strings.Repeat("0", prec)
			}
			y := h.Spec{F: "f", D: "123", E: int64(-e), P: 3, M: 0, Neg: n%2 == 1}.Build() // 0.000...0123
			wantY := "0." + strings.Repeat("0", e) + "123"
			if prec >= 0 {
				wantY = "0"
				if prec > 0 {
					wantY += "." + strings.Repeat("0", prec)
				}
			}
			if n%2 == 1 {
				want, wantY = "-"+want, "-"+wantY
			}
			o := &h.Obs{}
			o.Label("giant-f")
			o.NonTrivial()
			for _, tc := range []struct {
				d    *decimal.Decimal
				want string
			}{{x, want}, {y, wantY}} {
				if got := tc.d.Text('f', prec); got != tc.want {
					h.ReportGridFail(t, "C13", h.Failf("giant-f", "Text('f', %d) of a value with exponent about +-%d: %d bytes, want %d; first difference at byte %d", prec, e, len(got), len(tc.want), firstDiff(got, tc.want)), mustJSON(struct{ E, Prec int }{e, prec}))
				}
				if got := fmt.Sprintf("%.*f", func() int {
					if prec < 0 {
						return 1
					}
					return prec
				}(), tc.d); prec >= 0 && got != tc.want {
					h.ReportGridFail(t, "C13", h.Failf("giant-f", "Sprintf(%%.%df) of a value with exponent about +-%d: %d bytes, want %d", prec, e, len(got), len(tc.want)), mustJSON(struct{ E, Prec int }{e, prec}))
				}
			}
			h.RecordGrid("C13", o, struct{ E, Prec int }{e, prec})
			n++
		}
	}
	h.AddExtra("C13", "giant_f_cases", n)
	if h.Thorough() {
		h.AddExtra("C13", "giant_range_end_cases", c13RangeEnds(t))
	}
}

// c13RangeEnds (thorough tier: 6.5 GB, 10 s): the two ends of what Text('f') can be asked. (a) 0.99..9 (2147483664
// nines) x 10^MaxExp printed with 0 fractional digits rounds up to 10^MaxExp, which is not a Decimal but a perfectly
// good text: a 1 followed by MaxExp zeros (F-41: one zero was missing); the e format of the same value for
// comparison. (b) 0.4999..95 with MaxPrec digits, ToNearestAway, printed with 0 fractional digits is "0" (F-42: the
// temporary of MinPrec+1 digits did not exist, the value was rounded to 0.5 first and printed as 1), and its mirror
// image 0.5000..05 under ToNearestEven is "1".
func c13RangeEnds(t *testing.T) int {
	defer debug.FreeOSMemory()
	fail := func(class, msg string, c interface{}) {
		h.ReportGridFail(t, "C13", h.Failf(class, "%s", msg), mustJSON(c))
	}
	{
		const words = 113025456 // 2147483664 digits
		m := make([]decimal.Word, words)
		for i := range m {
			m[i] = decimal.Word(h.Base - 1)
		}
		x := new(decimal.Decimal).SetPrec(words * 19)
		x.SetBitsExp(m, math.MaxInt32)
		if x.IsInf() || x.MinPrec() != words*19 {
			t.Fatalf("INFRA: giant all-nines value not as constructed")
		}
		if got := x.Text('e', 3); got != "1.000e+2147483647" {
			fail("giant-carry", fmt.Sprintf("Text('e', 3) of 0.(2147483664 nines)e2147483647 = %q", h.FirstN(got, 60)), "carry-e")
		}
		b := x.Append(nil, 'f', 0)
		ok := len(b) == 1+math.MaxInt32 && b[0] == '1'
		for i := 1; ok && i < len(b); i++ {
			ok = b[i] == '0'
		}
		if !ok {
			fail("giant-carry", fmt.Sprintf("Text('f', 0) of 0.(2147483664 nines)e2147483647 has %d bytes starting %q; want a 1 followed by 2147483647 zeros", len(b), h.FirstN(string(b[:min(len(b), 8)]), 8)), "carry-f")
		}
		b, m, x = nil, nil, nil
		debug.FreeOSMemory()
	}
	for _, tc := range []struct {
		top, low uint64
		mode     decimal.RoundingMode
		want     string
	}{
		{4999999999999999999, 9999500000000000000, decimal.ToNearestAway, "0"},
		{5000000000000000000, 500000000000000, decimal.ToNearestEven, "1"},
	} {
		const words = 226050911 // MaxPrec + 14 digit positions
		m := make([]decimal.Word, words)
		fill := decimal.Word(h.Base - 1)
		if tc.want == "1" {
			fill = 0
		}
		for i := range m {
			m[i] = fill
		}
		m[words-1], m[0] = decimal.Word(tc.top), decimal.Word(tc.low)
		x := new(decimal.Decimal).SetPrec(decimal.MaxPrec)
		x.SetBitsExp(m, 0)
		x.SetMode(tc.mode)
		if x.MinPrec() != decimal.MaxPrec || x.Acc() != decimal.Exact {
			t.Fatalf("INFRA: MaxPrec-digit value not as constructed (MinPrec %d)", x.MinPrec())
		}
		if got := x.Text('f', 0); got != tc.want {
			fail("giant-leading-digit", fmt.Sprintf("Text('f', 0) of a %d-digit value with top word %d under %v = %q, want %q", uint(decimal.MaxPrec), tc.top, tc.mode, h.FirstN(got, 20), tc.want), tc)
		}
		m, x = nil, nil
		debug.FreeOSMemory()
	}
	return 4
}

func firstDiff(a, b string) int {
	for i := 0; i < len(a) && i < len(b); i++ {
		if a[i] != b[i] {
			return i
		}
	}
	if len(a) < len(b) {
		return len(a)
	}
	return len(b)
}

// FuzzFormat is the native coverage-guided leg of C13 (thorough tier): float64 bits, verb, precision, flags and
// width decoded from the fuzzer's arguments, judged by the same two oracles (strconv/fmt and the reference formatter).
func FuzzFormat(f *testing.F) {
	for _, v := range []float64{0, 1, -1.5, 0.0087890625, 0.6, 999.9, 9.96, 1e21, 1e-7, 123456789.125, math.MaxFloat64, 5e-324} {
		for _, verb := range []byte("eEfgGv") {
			f.Add(math.Float64bits(v), verb, int8(-1), uint8(0), uint16(0), uint8(0))
			f.Add(math.Float64bits(v), verb, int8(2), uint8(3), uint16(12), uint8(4))
		}
	}
	f.Fuzz(func(t *testing.T, bits uint64, verb byte, prec int8, flags uint8, width uint16, mode uint8) {
		fl := math.Float64frombits(bits)
		if math.IsNaN(fl) {
			return
		}
		verbs := "eEfgGpbv"
		c := C13Case{Kind: "f64", Bits: bits, X: float64Spec(fl), Verb: string(verbs[int(verb)%len(verbs)]), Prec: -1, Width: int(width % 200)}
		if prec >= 0 {
			c.Prec, c.HasPrec = int(prec)%60, true
		}
		for i, ch := range "+ 0-" {
			if flags&(1<<uint(i)) != 0 {
				c.Flags += string(ch)
			}
		}
		if fl != 0 && !math.IsInf(fl, 0) && mode%7 != 0 {
			// the reference-formatter oracle under any mode
			c.Kind = "ref"
			c.X.M = mode % 6
		}
		if (c.Verb == "p" || c.Verb == "b" || c.Verb == "v") && c.Kind == "f64" {
			c.Kind = "ref"
		}
		if fail := propC13.SafeCheck(c, &h.Obs{}); fail != nil {
			h.FuzzFail(t, "C13", fail, c)
		}
	})
}
