package props

import (
	"errors"
	"fmt"
	"math"
	"math/big"
	"strings"
	"testing"

	"github.com/db47h/decimal"
	dctx "github.com/db47h/decimal/context"
	"pgregory.net/rapid"

	"verif/h"
	"verif/model"
)

// C19: Context operations round to the context and latch the first NaN.

type CtxStep struct {
	Op  string `json:"op"`
	Z   int    `json:"z"`
	A   []int  `json:"a,omitempty"`
	P   uint   `json:"p,omitempty"`
	M   uint8  `json:"m,omitempty"`
	I   string `json:"i,omitempty"`
	Den string `json:"den,omitempty"`
	F   uint64 `json:"f,omitempty"`
	S   string `json:"s,omitempty"`
	Nil int    `json:"nil,omitempty"` // poison: which operand is nil (1-based)
	Exp int64  `json:"exp,omitempty"` // newfloat: binary exponent
	Neg bool   `json:"neg,omitempty"` // newfloat: sign
}

type C19Case struct {
	P     uint      `json:"p"`
	M     uint8     `json:"m"`
	Init  []h.Spec  `json:"init"`
	Steps []CtxStep `json:"steps"`
}

var ctxArith = map[string]int{"add": 2, "sub": 2, "mul": 2, "quo": 2, "fma": 3, "sqrt": 1, "neg": 1, "abs": 1, "set": 1}

type ctxMachine struct {
	c dctx.Context
	v []*decimal.Decimal
}

func newCtxMachine(c C19Case) *ctxMachine {
	m := &ctxMachine{c: dctx.New(c.P, decimal.RoundingMode(c.M))}
	for _, s := range c.Init {
		m.v = append(m.v, s.Build())
	}
	return m
}

type ctxOut struct {
	ret   *decimal.Decimal
	panic interface{}
	err   error
	ok    bool
	huge  uint // SetPrec beyond MaxPrec: what the context reported
}

func (m *ctxMachine) do(s CtxStep) (out ctxOut) {
	defer func() {
		if r := recover(); r != nil {
			if be, ok := r.(h.BuildError); ok {
				panic(be)
			}
			out.panic = r
		}
	}()
	z := m.v[s.Z]
	a := func(i int) *decimal.Decimal {
		if s.Nil == i+1 {
			return nil
		}
		return m.v[s.A[i]]
	}
	c := &m.c
	if s.Nil < 0 {
		// poison of the second kind: under a rounding mode outside the enumeration an inexact operation panics with
		// a string ("unreachable") from the rounding step: a panic value that is not even an error
		old := c.Mode()
		c.SetMode(decimal.RoundingMode(200))
		defer c.SetMode(old)
		one, three, sz := new(decimal.Decimal).SetInt64(1), new(decimal.Decimal).SetInt64(3), new(decimal.Decimal)
		// every operand choice below is inexact at the context's precision, whatever it is
		far := int(c.Prec()) + 40
		third := new(decimal.Decimal).SetPrec(uint(far)).Quo(one, three)
		var r *decimal.Decimal
		switch s.Op {
		case "add":
			r = c.Add(sz, one, new(decimal.Decimal).SetMantExp(three, -far))
		case "sub":
			r = c.Sub(sz, one, new(decimal.Decimal).SetMantExp(three, -far))
		case "mul":
			r = c.Mul(sz, third, third)
		case "fma":
			r = c.FMA(sz, third, third, one)
		case "sqrt":
			r = c.Sqrt(sz, three)
		default:
			r = c.Quo(sz, one, three)
		}
		if r == sz {
			out.ret = z // "returned its receiver"
		}
		return
	}
	switch s.Op {
	case "add":
		out.ret = c.Add(z, a(0), a(1))
	case "sub":
		out.ret = c.Sub(z, a(0), a(1))
	case "mul":
		out.ret = c.Mul(z, a(0), a(1))
	case "quo":
		out.ret = c.Quo(z, a(0), a(1))
	case "fma":
		out.ret = c.FMA(z, a(0), a(1), a(2))
	case "sqrt":
		out.ret = c.Sqrt(z, a(0))
	case "neg":
		out.ret = c.Neg(z, a(0))
	case "abs":
		out.ret = c.Abs(z, a(0))
	case "set":
		out.ret = c.Set(z, a(0))
	case "err":
		out.err = c.Err()
	case "setprec":
		if s.P > model.MaxPrec {
			// beyond MaxPrec: documented to saturate. Looked at and set back at once (an operation at four
			// billion digits is not something to run)
			old := c.Prec()
			c.SetPrec(s.P)
			out.huge = c.Prec()
			c.SetPrec(old)
			return
		}
		c.SetPrec(s.P)
	case "setmode":
		c.SetMode(decimal.RoundingMode(s.M))
	case "new":
		m.v[s.Z] = c.New()
	case "newint64":
		m.v[s.Z] = c.NewInt64(bigOf(s.I).Int64())
	case "newuint64":
		m.v[s.Z] = c.NewUint64(bigOf(s.I).Uint64())
	case "newint":
		m.v[s.Z] = c.NewInt(bigOf(s.I))
	case "newrat":
		m.v[s.Z] = c.NewRat(ratOf(s.I, s.Den))
	case "newfloat64":
		m.v[s.Z] = c.NewFloat64(math.Float64frombits(s.F))
	case "newfloat":
		m.v[s.Z] = c.NewFloat(ctxBigFloat(s))
	case "newfloat64nan":
		// a NaN argument: NewFloat64 either panics with ErrNaN (an invalid argument, as SetFloat64 does) or records
		// it; in neither case may an error recorded EARLIER be lost. Err() is called at once and returned.
		func() {
			defer func() {
				if r := recover(); r != nil {
					if _, ok := r.(decimal.ErrNaN); !ok {
						panic(r)
					}
					out.ok = true // panicked with ErrNaN
				}
			}()
			c.NewFloat64(math.NaN())
		}()
		out.err = c.Err()
	case "newstring":
		d, ok := c.NewString(s.S)
		out.ok = ok
		if ok {
			m.v[s.Z] = d
		}
	case "parsedecimal":
		d, _, err := c.ParseDecimal(s.S, 0)
		out.err = err
		if err == nil {
			m.v[s.Z] = d
		}
	default:
		panic(h.BuildError{Msg: "ctx op " + s.Op})
	}
	return
}

// ctxBigFloat builds the big.Float argument of a newfloat step: F is the mantissa (top bit set), FP the precision,
// P (reused) carries the binary exponent offset by 2000.
func ctxBigFloat(s CtxStep) *big.Float {
	f := new(big.Float).SetPrec(s.P).SetMode(big.ToZero).SetUint64(s.F | 1<<63)
	f.SetMantExp(f, int(s.Exp))
	if s.Neg {
		f.Neg(f)
	}
	return f
}

func ctxPrecLimit() int {
	if h.Thorough() {
		return 600
	}
	return 120
}

func genC19(t *rapid.T) C19Case {
	c := C19Case{P: uint(rapid.IntRange(0, ctxPrecLimit()).Draw(t, "cp")), M: h.GenMode(t, "cm")}
	nv := 4
	// all variables of a run live in one zone of the exponent range, so that they can interact: the middle, or right at
	// the bottom / top end (cancellations that underflow, sums and products that overflow)
	zone := rapid.SampledFrom([]string{"mid", "mid", "mid", "mid", "mid", "low", "low", "high"}).Draw(t, "zone")
	for i := 0; i < nv; i++ {
		switch rapid.IntRange(0, 4).Draw(t, "init.kind") {
		case 0:
			c.Init = append(c.Init, h.GenSpecial(t, "init", rapid.SampledFrom([]string{"z", "i"}).Draw(t, "sp")))
		default:
			d := h.GenDigits(t, "init.d", 80)
			s := h.Spec{F: "f", D: d, E: int64(rapid.IntRange(-60, 60).Draw(t, "init.e")), Neg: rapid.Bool().Draw(t, "init.neg"), M: h.GenMode(t, "init.m")}
			switch zone {
			case "low":
				s.E = model.MinExp + int64(rapid.IntRange(0, 2).Draw(t, "init.elow"))
				s.D = "1234567" + rapid.SampledFrom([]string{"", "1", "2", "25", "3"}).Draw(t, "init.dlow") // shared leading digits: differences underflow
			case "high":
				s.E = model.MaxExp - int64(rapid.IntRange(0, 2).Draw(t, "init.ehigh"))
				s.D = rapid.SampledFrom([]string{"9", "99", "5", "1", "95"}).Draw(t, "init.dhigh")
			}
			s.P = uint(len(s.D) + rapid.IntRange(0, 30).Draw(t, "init.p"))
			if rapid.IntRange(0, 7).Draw(t, "init.pwide") == 0 {
				// any precision up to MaxPrec, the values around 2^31 and 2^32/k included: under a Context the
				// operands' own precisions must not matter
				s.P = h.GenPrecFor(t, "init.pw", len(s.D))
			}
			c.Init = append(c.Init, s)
		}
	}
	m := newCtxMachine(c)
	n := rapid.IntRange(1, 40).Draw(t, "nsteps")
	for i := 0; i < n; i++ {
		s := CtxStep{Z: rapid.IntRange(0, nv-1).Draw(t, "z")}
		switch k := rapid.IntRange(0, 19).Draw(t, "group"); {
		case k <= 10:
			ops := []string{"add", "sub", "mul", "quo", "fma", "sqrt", "neg", "abs", "set", "add", "sub", "quo"}
			s.Op = ops[rapid.IntRange(0, len(ops)-1).Draw(t, "op")]
			ar := ctxArith[s.Op]
			for j := 0; j < ar; j++ {
				if rapid.IntRange(0, 3).Draw(t, "distinct") > 0 {
					// an operand different from the receiver (the rounding clause applies)
					o := rapid.IntRange(0, nv-2).Draw(t, "a")
					if o >= s.Z {
						o++
					}
					s.A = append(s.A, o)
				} else {
					s.A = append(s.A, rapid.IntRange(0, nv-1).Draw(t, "a"))
				}
			}
			// steer towards NaN-producing classes now and then
			if rapid.IntRange(0, 5).Draw(t, "nanbias") == 0 {
				for idx, v := range m.v {
					if v.IsInf() || v.IsZero() {
						s.A[0] = idx
						if ar > 1 && (s.Op == "quo" || s.Op == "sub" && v.IsInf()) {
							s.A[1] = idx
						}
						break
					}
				}
			}
			// cost steering: sums only between nearby exponents
			fin := func(a int) (h.Snap, bool) { r := h.Read(m.v[a]); return r, r.Form == model.Finite }
			switch s.Op {
			case "add", "sub":
				x, okx := fin(s.A[0])
				y, oky := fin(s.A[1])
				if d := x.Exp - y.Exp; okx && oky && (d > 2000 || d < -2000) {
					s.Op = "mul"
				}
			case "fma":
				x, okx := fin(s.A[0])
				y, oky := fin(s.A[1])
				u, oku := fin(s.A[2])
				if okx && oky {
					pe := x.Exp + y.Exp
					if d := pe - u.Exp; pe > model.MaxExp || pe-1 < model.MinExp || oku && (d > 2000 || d < -2000) {
						s.Op, s.A = "mul", s.A[:2]
					}
				}
			}
		case k == 11:
			// poison: a nil operand makes the underlying operation panic with a runtime error
			s.Op = rapid.SampledFrom([]string{"add", "sub", "mul", "quo", "fma", "sqrt"}).Draw(t, "pop")
			ar := ctxArith[s.Op]
			for j := 0; j < ar; j++ {
				s.A = append(s.A, rapid.IntRange(0, nv-1).Draw(t, "a"))
			}
			s.Nil = 1 + rapid.IntRange(0, ar-1).Draw(t, "nil")
			if rapid.IntRange(0, 2).Draw(t, "pkind") == 0 {
				s.Nil = -1 // a string panic from the rounding step under an out-of-range mode
			}
		case k <= 13:
			s.Op = "err"
		case k == 14:
			s.Op = "setprec"
			s.P = uint(rapid.IntRange(0, ctxPrecLimit()).Draw(t, "p"))
			if rapid.IntRange(0, 9).Draw(t, "phuge") == 0 {
				s.P = uint(rapid.SampledFrom([]uint64{1 << 32, 1<<32 + 3, 1<<32 + 34, 1 << 33, 1<<63 + 5, 1<<64 - 1, 1<<32 - 1 + 1}).Draw(t, "phugev"))
			}
		case k == 15:
			s.Op = "setmode"
			s.M = h.GenMode(t, "m")
		default:
			s.Op = rapid.SampledFrom([]string{"new", "newint64", "newuint64", "newint", "newrat", "newfloat64", "newfloat", "newfloat64nan", "newstring", "parsedecimal"}).Draw(t, "nop")
			switch s.Op {
			case "newint64":
				s.I = big.NewInt(genInt64(t, "i")).String()
			case "newuint64":
				s.I = new(big.Int).SetUint64(genUint64(t, "u")).String()
			case "newint":
				s.I = genBigIntString(t, "i", 200)
			case "newrat":
				s.I = genBigIntString(t, "num", 40)
				s.Den = rapid.SampledFrom([]string{"1", "3", "7", "8", "125", "999"}).Draw(t, "den")
				if rapid.IntRange(0, 2).Draw(t, "ratnear") == 0 {
					// a short decimal (representable at any precision that holds its 1-3 digits) plus or minus 1/D with
					// a D of 50..250 digits: numerator and denominator far longer than the context's precision, the
					// quotient a hair beside a representable value (or beside a tie when the decimal has one digit more
					// than the precision)
					d := big.NewInt(int64(rapid.IntRange(1, 999).Draw(t, "ratd")))
					den := new(big.Int).Exp(big.NewInt(10), big.NewInt(int64(rapid.IntRange(50, 250).Draw(t, "ratk"))), nil)
					den.Mul(den, big.NewInt(int64(rapid.SampledFrom([]int{1, 2, 3, 7, 64, 625}).Draw(t, "ratr"))))
					num := new(big.Int).Mul(d, den)
					if rapid.Bool().Draw(t, "ratminus") {
						num.Sub(num, big.NewInt(1))
					} else {
						num.Add(num, big.NewInt(1))
					}
					// scale the short decimal: d * 10^e
					if e := rapid.IntRange(-6, 6).Draw(t, "rate"); e >= 0 {
						num.Mul(num, new(big.Int).Exp(big.NewInt(10), big.NewInt(int64(e)), nil))
					} else {
						den.Mul(den, new(big.Int).Exp(big.NewInt(10), big.NewInt(int64(-e)), nil))
					}
					if rapid.Bool().Draw(t, "ratneg") {
						num.Neg(num)
					}
					s.I, s.Den = num.String(), den.String()
				}
			case "newfloat":
				s.F = rapid.Uint64().Draw(t, "bfm")
				if rapid.Bool().Draw(t, "bfshort") {
					s.F &^= 1<<uint(rapid.IntRange(0, 60).Draw(t, "bfz")) - 1 // few significant bits
				}
				s.P = uint(rapid.SampledFrom([]int{1, 2, 24, 52, 53, 54, 64, 64, 100}).Draw(t, "bfp"))
				s.Neg = rapid.Bool().Draw(t, "bfneg")
				s.Exp = int64(rapid.IntRange(-200, 200).Draw(t, "bfe"))
				switch rapid.IntRange(0, 3).Draw(t, "bfecls") {
				case 0:
					s.Exp = int64(rapid.IntRange(-1140, -1000).Draw(t, "bfelow")) // around float64's denormal range
				case 1:
					s.Exp = int64(rapid.IntRange(1000, 1100).Draw(t, "bfehigh"))
				}
			case "newfloat64":
				s.F = genFloat64Bits(t, "f")
				if math.IsNaN(math.Float64frombits(s.F)) {
					s.F = math.Float64bits(2.5)
				}
			case "newstring", "parsedecimal":
				s.S = h.GenDecLiteral(t, "lit", 60, true).S
				if rapid.IntRange(0, 3).Draw(t, "litfixed") == 0 {
					// what base 0 adds to plain decimal literals: prefixes, separators, binary exponents, infinities
					s.S = rapid.SampledFrom([]string{"0x1.8p3", "0X_Ap-2", "0b1011", "0b1.01e2", "0o17", "0o7.4p1", "1_000.5e-3", "1_0", "0x1p-1074", "1.5p-3", "Inf", "-inf", "+Inf", "0b", "0x", "1__0", "_1"}).Draw(t, "litfx")
				}
				if rapid.IntRange(0, 5).Draw(t, "bad") == 0 {
					s.S += "x"
				}
			}
		}
		c.Steps = append(c.Steps, s)
		m.do(s)
	}
	return c
}

func ctxModel(op string, v []model.Val, p uint64, m model.Mode) model.Res {
	switch op {
	case "add":
		return model.Sum(v[0], v[1], p, m)
	case "sub":
		return model.Diff(v[0], v[1], p, m)
	case "mul":
		return model.Prod(v[0], v[1], p, m)
	case "quo":
		return model.Quot(v[0], v[1], p, m)
	case "fma":
		return model.Fma(v[0], v[1], v[2], p, m)
	case "sqrt":
		return model.Sqrt(v[0], p, m)
	case "set":
		return model.SetVal(v[0], p, m)
	case "neg":
		r := model.SetVal(v[0], p, m)
		r.V = r.V.Negate()
		return r
	case "abs":
		r := model.SetVal(v[0], p, m)
		r.V = r.V.AbsVal()
		return r
	}
	panic("ctxModel " + op)
}

func checkC19(c C19Case, o *h.Obs) *h.Fail {
	m := newCtxMachine(c)
	prec := c.P
	if prec == 0 {
		prec = 34
	}
	mode := c.M
	latched := false
	var sawNaN, sawPoison, sawErrAfterNaN bool
	opsSinceNaN := 0
	for i, s := range c.Steps {
		where := fmt.Sprintf("step %d (%s z=v%d a=%v nil=%d, context prec %d %v, latched=%v)", i, s.Op, s.Z, s.A, s.Nil, prec, model.Mode(mode), latched)
		before := make([]h.Snap, len(m.v))
		vals := make([]model.Val, len(m.v))
		for j := range m.v {
			before[j] = h.Read(m.v[j])
			vals[j] = before[j].Val()
		}
		zptr := m.v[s.Z]
		out := m.do(s)
		o.Label("op:" + s.Op)
		if m.c.Prec() != prec || uint8(m.c.Mode()) != mode {
			if s.Op != "setprec" && s.Op != "setmode" {
				return h.Failf("ctx-attrs", "%s changed the context's precision/mode to %d %v", where, m.c.Prec(), m.c.Mode())
			}
		}
		for j := range m.v {
			if r := h.Read(m.v[j]); r.Malformed != "" {
				return h.Failf("malformed", "after %s: v%d = %v", where, j, r)
			}
		}
		_, isArith := ctxArith[s.Op]
		switch {
		case isArith && latched:
			// every operation returns its receiver untouched until Err() is called
			opsSinceNaN++
			if out.panic != nil {
				return h.Failf("latched-panic", "%s panicked while an error is latched: %v", where, out.panic)
			}
			if out.ret != zptr {
				return h.Failf("latched-return", "%s did not return its receiver", where)
			}
			for j := range m.v {
				if after := h.Read(m.v[j]); !after.SameAll(before[j]) {
					return h.Failf("latched-touched", "%s modified v%d while an error is latched: %v -> %v", where, j, before[j], after)
				}
			}
		case isArith && s.Nil != 0:
			// a panic that is not ErrNaN must not be swallowed, and must not be latched
			sawPoison = true
			what := "the runtime panic of a nil operand"
			o.Label("poison")
			if s.Nil < 0 {
				what = "the string panic of the rounding step under an out-of-range mode"
				o.Label("poison:string-panic")
			}
			if out.panic == nil {
				if e := m.c.Err(); e != nil {
					return h.Failf("swallowed", "%s: %s was swallowed and latched as %T %q", where, what, e, e)
				}
				return h.Failf("swallowed", "%s: %s was swallowed", where, what)
			}
			if _, ok := out.panic.(decimal.ErrNaN); ok {
				return h.Failf("swallowed", "%s: %s reported as ErrNaN", where, what)
			}
			if _, isErr := out.panic.(error); s.Nil < 0 && isErr {
				return h.Failf("INFRA-poison", "%s: expected a string panic, got %T %v", where, out.panic, out.panic)
			}
			// the context must still be usable and not latched: checked by the following steps through the model
		case isArith:
			var ops []model.Val
			distinct := true
			for _, a := range s.A {
				ops = append(ops, vals[a])
				if a == s.Z {
					distinct = false
				}
			}
			if out.panic != nil {
				return h.Failf("panic", "%s panicked: %T %v", where, out.panic, out.panic)
			}
			if out.ret != zptr {
				return h.Failf("return", "%s did not return its receiver", where)
			}
			want := ctxModel(s.Op, ops, uint64(prec), model.Mode(mode))
			if !distinct {
				// the receiver is rounded to the context before the operation (documented caveat): the
				// operand values seen by the operation are the rounded ones
				for k, a := range s.A {
					if a == s.Z {
						ops[k] = model.SetVal(vals[a], uint64(prec), model.Mode(mode)).V
					}
				}
				want = ctxModel(s.Op, ops, uint64(prec), model.Mode(mode))
				o.Label("aliased-receiver")
			}
			if s.Op == "fma" && len(ops) == 3 && ops[0].Form == model.Finite && ops[1].Form == model.Finite {
				if pe := ops[0].Exp + ops[1].Exp; pe > model.MaxExp || pe-1 < model.MinExp {
					continue // F-03c territory; initial exponents are small, so this does not happen in practice
				}
			}
			got := h.Read(m.v[s.Z])
			if want.NaN {
				sawNaN = true
				opsSinceNaN = 0
				o.Label("NaN-step")
				latched = true
				continue
			}
			if got.Prec != prec || got.Mode != mode {
				return h.Failf("attrs", "%s: receiver has precision %d mode %v", where, got.Prec, model.Mode(got.Mode))
			}
			if !got.Val().Equal(want.V) {
				return h.Failf("value", "%s on %v: got %v want %v", where, ops, got.Val(), want.V)
			}
			switch s.Op {
			case "add", "sub", "mul", "quo", "fma", "set":
				// the accuracy is that of this rounding (C02 through the context), not something an operand brought along
				// (receiver distinct from the operands only: an aliased receiver is rounded to the context first, and
				// whether the accuracy then refers to the value before or after that step is not specified)
				if distinct && model.Acc(got.Acc) != want.Acc {
					return h.Failf("acc", "%s on %v: value %v with accuracy %v, want %v", where, ops, got.Val(), model.Acc(got.Acc), want.Acc)
				}
			}
			if want.Acc != model.Exact {
				o.Label("rounded-to-context")
				if want.V.Form == model.Zero {
					o.Label("underflow-to-zero")
				} else if want.V.Form == model.Inf {
					o.Label("overflow-to-inf")
				}
			}
		case s.Op == "err":
			if latched {
				var nan decimal.ErrNaN
				if out.err == nil || !errors.As(out.err, &nan) {
					return h.Failf("err", "%s: Err() = %v (%T), an ErrNaN was latched", where, out.err, out.err)
				}
				latched = false
				sawErrAfterNaN = opsSinceNaN >= 2
				// exactly once
				if again := m.c.Err(); again != nil {
					return h.Failf("err-twice", "%s: a second Err() still returns %v", where, again)
				}
			} else if out.err != nil {
				return h.Failf("err", "%s: Err() = %v (%T) but no NaN was produced", where, out.err, out.err)
			}
		case s.Op == "setprec" && s.P > model.MaxPrec:
			o.Label("setprec-beyond-MaxPrec")
			if out.huge != model.MaxPrec {
				return h.Failf("ctx-attrs", "%s: SetPrec(%d) gave the context precision %d, documented MaxPrec", where, s.P, out.huge)
			}
		case s.Op == "setprec":
			prec = s.P
			if prec == 0 {
				prec = 34
			}
			if m.c.Prec() != prec {
				return h.Failf("ctx-attrs", "%s: context precision %d want %d", where, m.c.Prec(), prec)
			}
		case s.Op == "setmode":
			mode = s.M
		case s.Op == "newfloat64nan":
			o.Label("newfloat64-NaN")
			if out.panic != nil {
				return h.Failf("panic", "%s panicked: %v", where, out.panic)
			}
			for j := range m.v {
				if after := h.Read(m.v[j]); !after.SameAll(before[j]) {
					return h.Failf("touched", "%s modified v%d: %v -> %v", where, j, before[j], after)
				}
			}
			switch {
			case latched:
				// the error recorded first must be the one Err() returns
				var nan decimal.ErrNaN
				if out.err == nil || !errors.As(out.err, &nan) {
					return h.Failf("err", "%s: an ErrNaN was latched before NewFloat64(NaN); Err() right after it returns %v", where, out.err)
				}
				if strings.Contains(out.err.Error(), "SetFloat64") {
					return h.Failf("first-error-lost", "%s: the error latched earlier was replaced by NewFloat64's own: %v", where, out.err)
				}
				latched = false
			case out.ok:
				// panicked with ErrNaN: nothing may have been latched
				if out.err != nil {
					return h.Failf("err", "%s: NewFloat64(NaN) panicked AND latched %v", where, out.err)
				}
			default:
				// did not panic: then it must have recorded the ErrNaN
				if out.err == nil {
					return h.Failf("err", "%s: NewFloat64(NaN) neither panicked nor recorded an error", where)
				}
			}
		default:
			// constructors: rounded to the context
			if out.panic != nil {
				return h.Failf("panic", "%s panicked: %v", where, out.panic)
			}
			got := h.Read(m.v[s.Z])
			if s.Op == "newfloat" || s.Op == "newfloat64" {
				// differential: the constructor is SetFloat / SetFloat64 into a receiver carrying the context's
				// precision and mode (what those do is C15's business)
				ref := new(decimal.Decimal).SetMode(decimal.RoundingMode(mode)).SetPrec(prec)
				if s.Op == "newfloat" {
					ref.SetFloat(ctxBigFloat(s))
				} else {
					ref.SetFloat64(math.Float64frombits(s.F))
				}
				if r := h.Read(ref); !r.SameButWords(got) {
					return h.Failf("value", "%s: the context's constructor gives %v, SetFloat into a receiver with the context's precision and mode gives %v", where, got, r)
				}
			}
			var exact model.X
			have := true
			switch s.Op {
			case "new":
				exact = model.X{Val: model.MkZero(false)}
			case "newint64", "newuint64", "newint":
				exact = model.X{Val: model.FromInt(bigOf(s.I), 0)}
			case "newrat":
				exact = model.FromRat(ratOf(s.I, s.Den), uint64(prec)+3)
			default:
				have = false // strings and floats: value checked by C12 / C15
			}
			if s.Op == "newstring" || s.Op == "parsedecimal" {
				// differential: the context's constructor accepts exactly what SetString / Parse(s, 0) accept into a
				// receiver carrying the context's attributes, with the same result (what those do is C12's business)
				ref := new(decimal.Decimal).SetMode(decimal.RoundingMode(mode)).SetPrec(prec)
				_, _, rerr := ref.Parse(s.S, 0)
				accepted := out.ok
				if s.Op == "parsedecimal" {
					accepted = out.err == nil
				}
				if accepted != (rerr == nil) {
					return h.Failf("acceptance", "%s(%q): accepted=%v, Parse(s, 0) into a receiver with the context's attributes: err=%v", where, s.S, accepted, rerr)
				}
				if !accepted {
					continue
				}
				if r := h.Read(ref); !r.SameButWords(got) {
					return h.Failf("value", "%s(%q) = %v, Parse gives %v", where, s.S, got, r)
				}
				continue
			}
			if got.Prec != prec || got.Mode != mode {
				return h.Failf("attrs", "%s: new value has precision %d mode %v", where, got.Prec, model.Mode(got.Mode))
			}
			if have {
				want := exact.Val
				if exact.Form == model.Finite {
					want, _ = model.Round(exact, uint64(prec), model.Mode(mode))
				}
				if !got.Val().Equal(want) {
					return h.Failf("value", "%s(%s/%s): got %v want %v", where, h.FirstN(s.I, 60), s.Den, got.Val(), want)
				}
			}
		}
	}
	if sawPoison || sawNaN && sawErrAfterNaN {
		o.NonTrivial()
	}
	return nil
}

const ruleC19 = "rapid state machine: one Context (precision 0..120 (quick) / 600 (thorough), any mode) and four variables with their own precision and mode (finite, zeros, infinities; in one run of four all of them sit at the bottom or at the top end of the exponent range, with shared leading digits, so that differences underflow and sums overflow); steps drawn against the current state from Add/Sub/Mul/Quo/FMA/Sqrt/Neg/Abs/Set (receiver distinct from the operands in 3 of 4 draws, steered now and then to 0/0, Inf-Inf, 0*Inf, Inf/Inf, Sqrt(-x)), Err, SetPrec, SetMode, New/NewInt64/NewUint64/NewInt/NewRat/NewFloat64/NewFloat/NewString/ParseDecimal with valid arguments (NewFloat and NewFloat64 compared with SetFloat/SetFloat64 into a receiver carrying the context's attributes; big.Floats of 1..100 bits also around float64's denormal range), NewString/ParseDecimal compared with Parse(s, 0) on decimal, prefixed, separated and malformed literals; NewFloat64(NaN) (may panic with ErrNaN or record it, but an error recorded earlier must be the one Err() returns), and poison steps (a nil operand makes the wrapped operation panic with a runtime error; or, one time in three, an out-of-range rounding mode makes the rounding step of an inexact operation on scratch variables panic with a plain string). Model of the context (precision, mode, latched): not latched => result == reference operation rounded to the context's precision and mode (value; for Add/Sub/Mul/Quo/FMA/Set also the accuracy) and the receiver carries them (aliased receivers: operands first rounded to the context, as documented); NaN => no panic, receiver returned, error latched; latched => every operation returns its receiver and all variables are bit-identical; Err() returns an ErrNaN exactly once and re-arms; poison => the panic propagates and nothing is latched. Non-trivial = a run with a NaN step followed by at least two operations and an Err, or with a poison step."

var propC19 = &h.Prop[C19Case]{ID: "C19", Rule: ruleC19, Gen: genC19, Check: checkC19, Matchers: map[string]func(C19Case) bool{}}

func TestC19(t *testing.T)       { propC19.Search(t) }
func TestC19Replay(t *testing.T) { propC19.Replay(t) }
