//go:build verif

package props

import (
	"fmt"
	"math/big"
	"strings"
	"testing"

	"github.com/db47h/decimal"
	"pgregory.net/rapid"

	"verif/h"
	"verif/model"
)

// C06: long multiplication, squaring and division are exact at every size and tuning.

type C06Case struct {
	Kind string `json:"kind"` // mul sqr div
	X    string `json:"x"`    // words as 19-digit groups, most significant first
	Y    string `json:"y,omitempty"`
	Thr  [3]int `json:"thr"` // karatsuba, basicSqr, karatsubaSqr
}

func c06MaxWords() int {
	if h.Thorough() {
		return 1000
	}
	return 300
}

func genLen(t *rapid.T, label string, max int) int {
	type cl struct{ lo, hi int }
	classes := []cl{{1, 1}, {2, 2}, {3, 10}, {3, 10}, {11, 40}, {11, 40}, {41, 120}, {41, 120}, {95, 130}, {121, max}}
	c := classes[rapid.IntRange(0, len(classes)-1).Draw(t, label+".cls")]
	if c.hi > max {
		c.hi = max
	}
	if c.lo > c.hi {
		c.lo = c.hi
	}
	return rapid.IntRange(c.lo, c.hi).Draw(t, label)
}

func wordsBig(w []uint64) *big.Int {
	v, ok := new(big.Int).SetString(wordsToDigitStringMSF(w), 10)
	if !ok {
		panic("wordsBig")
	}
	return v
}

func wordsToDigitStringMSF(w []uint64) string {
	le := make([]uint64, len(w))
	for i, x := range w {
		le[len(w)-1-i] = x
	}
	return h.WordsToDigits(le)
}

// digitStringToWordsLE parses 19-digit groups (most significant first) into little-endian words.
func digitStringToWordsLE(s string) []decimal.Word {
	if len(s)%h.DW != 0 {
		panic(h.BuildError{Msg: "word string length not a multiple of 19"})
	}
	return h.DigitsToWords(s)
}

// bigToWordString renders v >= 0 as 19-digit groups without leading zero groups ("" for 0).
func bigToWordString(v *big.Int) string {
	if v.Sign() == 0 {
		return ""
	}
	s := v.String()
	if r := len(s) % h.DW; r != 0 {
		s = strings.Repeat("0", h.DW-r) + s
	}
	return s
}

func genThresholds(t *rapid.T) [3]int {
	switch rapid.IntRange(0, 7).Draw(t, "thr.cls") {
	case 6:
		// schoolbook squaring (decBasicSqr) at every length, Karatsuba squaring off: the configuration a calibration
		// run uses as its reference
		return [3]int{30, rapid.IntRange(1, 30).Draw(t, "thr.bs2"), 1 << 30}
	case 7:
		// squaring thresholds over the whole range the calibration code tries (30..300)
		return [3]int{rapid.IntRange(2, 40).Draw(t, "thr.k3"), rapid.IntRange(1, 80).Draw(t, "thr.bs3"), rapid.IntRange(30, 320).Draw(t, "thr.ks3")}
	case 0:
		return [3]int{30, 10, 50} // shipped defaults
	case 1:
		return [3]int{1 << 30, 1 << 30, 1 << 30} // schoolbook only
	case 2:
		return [3]int{2, 1, 2} // recursion all the way down
	}
	return [3]int{rapid.IntRange(2, 40).Draw(t, "thr.k"), rapid.IntRange(1, 30).Draw(t, "thr.bs"), rapid.IntRange(2, 60).Draw(t, "thr.ks")}
}

func genC06(t *rapid.T) C06Case {
	c := C06Case{Thr: genThresholds(t)}
	c.Kind = rapid.SampledFrom([]string{"mul", "mul", "sqr", "div", "div", "div"}).Draw(t, "kind")
	max := c06MaxWords()
	nz := func(w []uint64) []uint64 {
		if w[0] == 0 {
			w[0] = 1 + uint64(rapid.IntRange(0, 8).Draw(t, "lead"))*(h.Base/10)
		}
		return w
	}
	switch c.Kind {
	case "mul":
		m := genLen(t, "m", max)
		n := genLen(t, "n", max)
		if rapid.IntRange(0, 3).Draw(t, "balanced") == 0 {
			n = m
		}
		c.X = wordsToDigitStringMSF(nz(h.GenWords(t, "x", m)))
		c.Y = wordsToDigitStringMSF(nz(h.GenWords(t, "y", n)))
	case "sqr":
		c.X = wordsToDigitStringMSF(nz(h.GenWords(t, "x", genLen(t, "m", max))))
	case "div":
		n := genLen(t, "n", max) // divisor length
		recursive := rapid.IntRange(0, 2).Draw(t, "recursive") > 0
		if recursive {
			// recursive division: divisor of at least divRecursiveThreshold words
			hi := 260
			if hi > max {
				hi = max
			}
			n = rapid.IntRange(100, hi).Draw(t, "nrec")
		}
		v := nz(h.GenWords(t, "v", n))
		if rapid.IntRange(0, 2).Draw(t, "vtop") == 0 {
			// top word close to the normalisation boundaries
			v[0] = rapid.SampledFrom([]uint64{h.Base / 2, h.Base/2 - 1, h.Base/2 + 1, h.Base - 1, 1, 2, h.Base / 10, h.Base/10 - 1, 4999999999999999999, 3333333333333333333}).Draw(t, "vtopw")
		}
		vb := wordsBig(v)
		var ub *big.Int
		ukind := rapid.IntRange(0, 3).Draw(t, "ukind")
		if recursive && rapid.IntRange(0, 3).Draw(t, "adversarial") == 0 {
			// worst case for the block quotient estimate: smallest normalised top word, low half all nines,
			// quotient as long and as large as a block allows
			v[0] = h.Base/2 + uint64(rapid.IntRange(0, 1).Draw(t, "advtop"))
			zeroUpper := rapid.Bool().Draw(t, "advzero")
			for i := 1; i < n/2 && zeroUpper; i++ {
				v[i] = 0 // upper half: 5*10^18 then zeros
			}
			for i := n / 2; i < n; i++ {
				if rapid.IntRange(0, 15).Draw(t, "advlow") > 0 {
					v[i] = h.Base - 1
				}
			}
			vb = wordsBig(v)
			if rapid.Bool().Draw(t, "advshort") {
				// a short dividend (leading digits 2.5 .. 5) shifted so that the quotient fills whole blocks
				lead := uint64(rapid.IntRange(25, 50).Draw(t, "advlead")) * (h.Base / 100)
				blocks := rapid.IntRange(1, 3).Draw(t, "advblocks")
				shift := n + blocks*(n/2) + rapid.IntRange(-2, 2).Draw(t, "advshift")
				ub = new(big.Int).Mul(new(big.Int).SetUint64(lead), new(big.Int).Exp(bigBase, big.NewInt(int64(shift)), nil))
			} else {
				k := n/2 + rapid.IntRange(-1, 2).Draw(t, "advk")
				q := make([]uint64, k)
				for i := range q {
					q[i] = h.Base - 1 - uint64(rapid.IntRange(0, 2).Draw(t, "advq"))
				}
				if rapid.Bool().Draw(t, "advqtop") {
					// a quotient of B+1 words whose top word is tiny: the dividend then has exactly n+B words, the
					// last block computes all of it, and its estimate overshoots the most
					q[0] = uint64(rapid.IntRange(1, 3).Draw(t, "advq0"))
				}
				ub = new(big.Int).Mul(wordsBig(q), vb)
				ub.Add(ub, big.NewInt(int64(rapid.IntRange(0, 1).Draw(t, "advr"))))
			}
			ukind = -1
		}
		switch ukind {
		case -1:
		case 0:
			// raw dividend
			k := genLen(t, "k", max)
			u := nz(h.GenWords(t, "u", n+k-1))
			ub = wordsBig(u)
		default:
			// u = q*v + r with chosen q and r
			k := genLen(t, "k", max)
			if recursive {
				// quotient lengths around the block size B = n/2: only the final block, exactly one more, several
				switch rapid.IntRange(0, 3).Draw(t, "kcls") {
				case 0:
					k = rapid.IntRange(1, n/2+2).Draw(t, "kfinal")
				case 1:
					k = n/2 + rapid.IntRange(-2, 3).Draw(t, "kedge")
				case 2:
					k = n + rapid.IntRange(-2, 2).Draw(t, "kn")
				}
				if k < 1 {
					k = 1
				}
			}
			q := nz(h.GenWords(t, "q", k))
			qb := wordsBig(q)
			var rb *big.Int
			switch rapid.IntRange(0, 4).Draw(t, "rkind") {
			case 0:
				rb = new(big.Int)
			case 1:
				rb = big.NewInt(1)
			case 2:
				rb = new(big.Int).Sub(vb, big.NewInt(1))
			default:
				rw := h.GenWords(t, "r", n)
				rb = wordsBig(rw)
				rb.Mod(rb, vb)
			}
			ub = new(big.Int).Mul(qb, vb)
			ub.Add(ub, rb)
		}
		c.X = bigToWordString(ub)
		c.Y = wordsToDigitStringMSF(v)
		if c.X == "" {
			c.X = c.Y
		}
	}
	return c
}

func leToBig(w []decimal.Word) (*big.Int, string) {
	u := make([]uint64, len(w))
	for i, x := range w {
		u[i] = uint64(x)
		if u[i] >= h.Base {
			return nil, "word >= 10^19 in result"
		}
	}
	if len(w) > 0 && w[len(w)-1] == 0 {
		return nil, "result not normalized (leading zero word)"
	}
	if len(w) == 0 {
		return new(big.Int), ""
	}
	v, _ := new(big.Int).SetString(h.WordsToDigits(u), 10)
	return v, ""
}

func checkC06(c C06Case, o *h.Obs) *h.Fail {
	k0, b0, s0 := decimal.VerifThresholds()
	defer decimal.VerifSetThresholds(k0, b0, s0)
	hits0 := decimal.VerifHits()[0]

	xw := digitStringToWordsLE(c.X)
	xb, _ := new(big.Int).SetString(c.X, 10)
	var yw []decimal.Word
	var yb *big.Int
	if c.Kind != "sqr" {
		yw = digitStringToWordsLE(c.Y)
		yb, _ = new(big.Int).SetString(c.Y, 10)
	}
	o.Label(c.Kind)
	lenClass := func(n int) string {
		switch {
		case n == 1:
			return "1"
		case n < 10:
			return "2-9"
		case n < 30:
			return "10-29"
		case n < 100:
			return "30-99"
		case n < 200:
			return "100-199"
		}
		return ">=200"
	}
	o.Labelf("%s:len=%s/%s", c.Kind, lenClass(len(xw)), lenClass(len(yw)))
	if len(xw) >= 2 && (c.Kind == "sqr" || len(yw) >= 2) {
		o.NonTrivial()
	}
	keep := func(w []decimal.Word) []decimal.Word { return append([]decimal.Word(nil), w...) }
	x0, y0 := keep(xw), keep(yw)
	unchanged := func() *h.Fail {
		for i := range x0 {
			if x0[i] != xw[i] {
				return h.Failf("operand-modified", "%s modified its first operand at word %d", c.Kind, i)
			}
		}
		for i := range y0 {
			if y0[i] != yw[i] {
				return h.Failf("operand-modified", "%s modified its second operand at word %d", c.Kind, i)
			}
		}
		return nil
	}

	for pass, thr := range [][3]int{c.Thr, {k0, b0, s0}} {
		decimal.VerifSetThresholds(thr[0], thr[1], thr[2])
		switch c.Kind {
		case "mul", "sqr":
			var got []decimal.Word
			want := new(big.Int)
			if c.Kind == "mul" {
				got = decimal.VerifMul(xw, yw)
				want.Mul(xb, yb)
			} else {
				got = decimal.VerifSqr(xw)
				want.Mul(xb, xb)
			}
			gb, bad := leToBig(got)
			if bad != "" {
				return h.Failf("malformed", "%s thresholds %v: %s", c.Kind, thr, bad)
			}
			if gb.Cmp(want) != 0 {
				return h.Failf("product", "%s of %d x %d words under thresholds %v differs from math/big (pass %d)", c.Kind, len(xw), len(yw), thr, pass)
			}
		case "div":
			q, r := decimal.VerifDiv(xw, yw)
			qb, bad := leToBig(q)
			if bad != "" {
				return h.Failf("malformed", "quotient: %s", bad)
			}
			rb, bad := leToBig(r)
			if bad != "" {
				return h.Failf("malformed", "remainder: %s", bad)
			}
			wq, wr := new(big.Int).QuoRem(xb, yb, new(big.Int))
			if qb.Cmp(wq) != 0 || rb.Cmp(wr) != 0 {
				return h.Failf("quotient", "div of %d by %d words under thresholds %v: quotient ok=%v remainder ok=%v", len(xw), len(yw), thr, qb.Cmp(wq) == 0, rb.Cmp(wr) == 0)
			}
			if pass == 0 {
				if wr.Sign() == 0 {
					o.Label("div:exact")
				}
				if len(yw) >= decimal.VerifDivRecursiveThreshold {
					o.Label("div:recursive")
				}
			}
		}
		if f := unchanged(); f != nil {
			return f
		}
	}
	decimal.VerifSetThresholds(c.Thr[0], c.Thr[1], c.Thr[2])
	if d := decimal.VerifHits()[0] - hits0; d > 0 {
		o.Label("div:add-back-taken")
		h.AddExtra("C06", "divBasic_addback_hits", int(d))
	}

	// the same operands through the public API: Mul / Mul(x,x) exact at full precision,
	// Quo correctly rounded with the right exact/inexact decision
	mk := func(w []decimal.Word, digits string) *decimal.Decimal {
		return new(decimal.Decimal).SetPrec(uint(len(digits))).SetBitsExp(keep(w), int64(len(digits)))
	}
	xd := mk(xw, c.X)
	xv := model.MkFinite(false, c.X, int64(len(c.X)))
	switch c.Kind {
	case "mul", "sqr":
		yd, yv := xd, xv
		if c.Kind == "mul" {
			yd, yv = mk(yw, c.Y), model.MkFinite(false, c.Y, int64(len(c.Y)))
		}
		z := new(decimal.Decimal).SetPrec(uint(len(c.X) + len(c.Y) + len(c.X)))
		z.Mul(xd, yd)
		got := h.Read(z)
		want := model.MulX(xv, yv).Val
		if got.Malformed != "" || !got.Val().Equal(want) || got.Acc != 0 {
			return h.Failf("public-mul", "Mul of %d x %d words under thresholds %v: got %v want %v", len(xw), len(yw), c.Thr, got, want)
		}
		// a product that misses a power of ten by less than one factor: x times ceil(10^k / x), at a small precision
		// under directed modes (whether anything lies below the leading 1 decides value and accuracy)
		if xb.Sign() > 0 {
			k := int64(len(c.X) + 2*h.DW + len(c.X)%7)
			q, r := new(big.Int).QuoRem(new(big.Int).Exp(big.NewInt(10), big.NewInt(k), nil), xb, new(big.Int))
			if r.Sign() != 0 {
				q.Add(q, big.NewInt(1))
			}
			qv := model.FromInt(q, 0)
			qd := h.SpecOf(qv, uint(len(qv.Digits)), 0).Build()
			for _, pm := range [][2]uint{{20, uint(model.ToZero)}, {1, uint(model.ToPositiveInf)}, {39, uint(model.ToNearestEven)}} {
				zz := mkRecv(pm[0], uint8(pm[1]))
				zz.Mul(xd, qd)
				got, want := h.Read(zz), model.Prod(xv, qv, uint64(pm[0]), model.Mode(pm[1]))
				if got.Malformed != "" || !got.Val().Equal(want.V) || model.Acc(got.Acc) != want.Acc {
					return h.Failf("public-mul-round", "x (%d words) times ceil(10^%d / x) at precision %d %v under thresholds %v: got %v (%v) want %v (%v)", len(xw), k, pm[0], model.Mode(pm[1]), c.Thr, got.Val(), model.Acc(got.Acc), want.V, want.Acc)
				}
			}
		}
		// squaring in place at the operand's own precision, three times over: the results are rounded back to
		// the operand's length while the receiver keeps the (much larger) buffer of the earlier full product
		zp := uint(len(c.X))
		zr := new(decimal.Decimal).SetPrec(zp)
		zr.Mul(xd, yd)
		wantR := model.Prod(xv, yv, uint64(zp), model.ToNearestEven).V
		for round := 0; round <= 3; round++ {
			if got := h.Read(zr); got.Malformed != "" || !got.Val().Equal(wantR) {
				return h.Failf("public-sqr-inplace", "rounded product followed by %d in-place squarings of a %d-word value under thresholds %v is wrong", round, len(xw), c.Thr)
			}
			if wantR.Form != model.Finite {
				break
			}
			wantR = model.Prod(wantR, wantR, uint64(zp), model.ToNearestEven).V
			zr.Mul(zr, zr)
		}
	case "div":
		yd := mk(yw, c.Y)
		yv := model.MkFinite(false, c.Y, int64(len(c.Y)))
		// one receiver for all four quotients, holding a long all-nines value first: the quotient buffer is reused
		// and dirty every time (the kernels accumulate into it at some sizes)
		z := new(decimal.Decimal).SetPrec(uint(len(c.X)) + 5*h.DW)
		z.SetBitsExp(h.DigitsToWords(strings.Repeat("9", len(c.X)+5*h.DW)), 3)
		for _, p := range []uint{uint(len(c.X)-len(c.Y)) + 2, 7} {
			for _, m := range []uint8{0, 3} {
				z.SetMode(decimal.RoundingMode(m)).SetPrec(p)
				z.Quo(xd, yd)
				got := h.Read(z)
				want := model.Quot(xv, yv, uint64(p), model.Mode(m))
				if got.Malformed != "" || !got.Val().Equal(want.V) || model.Acc(got.Acc) != want.Acc {
					return h.Failf("public-quo", "Quo of %d by %d words at precision %d %v under thresholds %v: got %v want %v", len(xw), len(yw), p, model.Mode(m), c.Thr, got, want)
				}
			}
		}
	}
	return nil
}

const ruleC06 = "rapid-generated (kind, operands as base-10^19 word vectors, threshold assignment): lengths 1..300 (quick) / 1..1000 (thorough) words, balanced and unbalanced, words drawn in runs from {0, 10^19-1, 5*10^18, 5*10^18-1, 10^k, 10^k-1, small, 1, near-max, uniform}; dividends built as q*v+r with r in {0, 1, v-1, random}, divisor top words at the normalisation boundaries, divisor lengths on both sides of the recursive-division threshold (100); thresholds per case: shipped, schoolbook-only, recurse-to-the-bottom, Karatsuba 2..40 / basicSqr 1..30 / karatsubaSqr 2..60, Karatsuba squaring off with schoolbook squaring on, or squaring thresholds over the calibration range (basicSqr 1..80, karatsubaSqr 30..320). Oracle: math/big Int.Mul and Int.QuoRem on the same numbers (q*v+r==u and 0<=r<v follow), results normalized with all words < 10^19, identical under the drawn and the shipped thresholds, operands unmodified; then the same operands through Mul / Mul(x,x) / Quo, and x times ceil(10^k / x) at precisions 1, 20 and 39 (a product one hair above a round number) (value and exact-vs-inexact accuracy against the reference model; the four quotients of a case go into one receiver that first held a longer all-nines value, so that its buffer is reused and dirty). Non-trivial = both operands >= 2 words. The add-back branch of divBasic is counted by the hook build (measured.divBasic_addback_hits)."

var propC06 = &h.Prop[C06Case]{ID: "C06", Rule: ruleC06, Gen: genC06, Check: checkC06, Matchers: map[string]func(C06Case) bool{}}

func TestC06(t *testing.T)       { propC06.Search(t) }
func TestC06Replay(t *testing.T) { propC06.Replay(t) }

// fuzzWords decodes a byte string into n words (most significant first) with the pattern alphabet of the generators.
func fuzzWords(data []byte, n int) ([]uint64, []byte) {
	w := make([]uint64, n)
	for i := 0; i < n; i++ {
		if len(data) == 0 {
			w[i] = h.Base - 1
			continue
		}
		s := data[0]
		data = data[1:]
		switch s % 8 {
		case 0:
			w[i] = 0
		case 1:
			w[i] = h.Base - 1
		case 2:
			w[i] = h.Base / 2
		case 3:
			w[i] = h.Base/2 - 1
		case 4:
			w[i] = 1
		case 5:
			var v uint64
			for j := 0; j < 8 && len(data) > 0; j++ {
				v = v<<8 | uint64(data[0])
				data = data[1:]
			}
			w[i] = v % h.Base
		case 6:
			p := uint64(1)
			for j := 0; j < int(s>>3)%19; j++ {
				p *= 10
			}
			w[i] = p
		default:
			w[i] = h.Base - 1 - uint64(s>>3)
		}
	}
	return w, data
}

// FuzzDiv is the native coverage-guided leg of C06 (thorough tier): division operands decoded from bytes
// (divisor and quotient lengths, then word patterns), checked by the same oracle as the generated cases.
func FuzzDiv(f *testing.F) {
	f.Add(uint16(3), uint16(2), []byte{1, 2, 3, 4, 5, 6, 7, 8, 9})
	f.Add(uint16(218), uint16(110), []byte{2, 0, 0, 0, 1, 1, 1, 1})
	f.Add(uint16(100), uint16(50), []byte{2, 0, 0, 0, 0, 0, 0, 0, 0, 0, 0, 0, 0, 0, 0, 0, 0, 0, 0, 0, 0, 0, 0, 0, 0, 0, 0, 0, 0, 0, 0, 0, 0, 0, 0, 0, 0, 0, 0, 0, 0, 0, 0, 0, 0, 0, 0, 0, 0, 0, 1})
	f.Add(uint16(150), uint16(76), []byte{3, 1, 1, 1})
	f.Fuzz(func(t *testing.T, nv, nq uint16, data []byte) {
		n := 1 + int(nv)%400
		k := 1 + int(nq)%400
		v, rest := fuzzWords(data, n)
		if v[0] == 0 {
			v[0] = h.Base / 2
		}
		q, rest := fuzzWords(rest, k)
		if q[0] == 0 {
			q[0] = 1
		}
		r, _ := fuzzWords(rest, 1)
		vb := wordsBig(v)
		ub := new(big.Int).Mul(wordsBig(q), vb)
		ub.Add(ub, new(big.Int).Mod(new(big.Int).SetUint64(r[0]), vb))
		c := C06Case{Kind: "div", X: bigToWordString(ub), Y: wordsToDigitStringMSF(v), Thr: [3]int{30, 10, 50}}
		if fail := propC06.SafeCheck(c, &h.Obs{}); fail != nil {
			h.FuzzFail(t, "C06", fail, c)
		}
	})
}

// TestC06Grid: a few operands of 2^12 .. 2^13 words (2^14, 2^15 in the thorough tier), an order of magnitude beyond
// the generated lengths: deep Karatsuba and recursive-division recursions, and any code path gated by size. Words
// come from a fixed splitmix stream mixed with the edge words; the oracle is the same as for generated cases.
func TestC06Grid(t *testing.T) {
	defer h.WriteStats("C06")
	sizes := []int{1 << 12, 1<<13 + 1}
	if h.Thorough() {
		sizes = append(sizes, 1<<14, 1<<14+3, 1<<15)
	}
	st := uint64(0x9e3779b97f4a7c15)
	next := func() uint64 {
		st += 0x9e3779b97f4a7c15
		z := st
		z = (z ^ (z >> 30)) * 0xbf58476d1ce4e5b9
		z = (z ^ (z >> 27)) * 0x94d049bb133111eb
		return z ^ (z >> 31)
	}
	words := func(n int) string {
		var b strings.Builder
		for i := 0; i < n; i++ {
			var w uint64
			switch r := next() % 16; {
			case r == 0:
				w = 0
			case r == 1:
				w = h.Base - 1
			case r == 2:
				w = h.Base / 2
			case r == 3:
				w = 1
			default:
				w = next() % h.Base
			}
			if i == 0 && w < h.Base/10 {
				w += h.Base / 10 * (1 + next()%9) // normalised top word
			}
			fmt.Fprintf(&b, "%019d", w)
		}
		return b.String()
	}
	k0, b0, s0 := decimal.VerifThresholds()
	n := 0
	for _, sz := range sizes {
		x, y := words(sz), words(sz/2+7)
		v := words(sz / 3)
		vb, _ := new(big.Int).SetString(v, 10)
		qb, _ := new(big.Int).SetString(words(sz-sz/3), 10)
		u := new(big.Int).Mul(qb, vb)
		u.Add(u, new(big.Int).Sub(vb, big.NewInt(1))) // remainder v-1
		for _, c := range []C06Case{
			{Kind: "mul", X: x, Y: y, Thr: [3]int{k0, b0, s0}},
			{Kind: "sqr", X: y, Thr: [3]int{k0, b0, s0}},
			{Kind: "div", X: bigToWordString(u), Y: v, Thr: [3]int{k0, b0, s0}},
		} {
			o := &h.Obs{}
			o.Label("giant")
			if f := propC06.SafeCheck(c, o); f != nil {
				h.ReportGridFail(t, "C06", f, mustJSON(c))
			}
			h.RecordGrid("C06", o, struct {
				Kind  string
				Words int
			}{c.Kind, sz})
			n++
		}
	}
	h.AddExtra("C06", "giant_cases_enumerated", n)
}
