//go:build verif

package props

import (
	"fmt"
	"math/big"
	"strings"
	"testing"

	"github.com/db47h/decimal"
	"pgregory.net/rapid"

	"verif/h"
)

// C07 (kernel half): every amd64 assembly kernel returns the same vector and
// carry/borrow/remainder as its portable Go twin, also in place / overlapping
// the way the library calls it, and both equal the mathematical definition.

type C07Case struct {
	K     string   `json:"k"`
	X     []uint64 `json:"x,omitempty"` // little endian
	Y     []uint64 `json:"y,omitempty"`
	W     uint64   `json:"w,omitempty"`  // scalar operand
	W2    uint64   `json:"w2,omitempty"` // second scalar (carry-in, xn, ...)
	S     uint     `json:"s,omitempty"`
	Shape string   `json:"shape,omitempty"` // "", "inplace", "inplace-y", "overlap"
	Off   int      `json:"off,omitempty"`   // overlap distance in words
	Ext   int      `json:"ext,omitempty"`   // VV kernels: x and y are this many words longer than z (as in decAddAt / divBasic)
}

var c07Kernels = []string{"mul10WW", "div10WW", "div10W", "add10VV", "sub10VV", "add10VW", "sub10VW", "shl10VU", "shr10VU", "mulAdd10VWW", "addMul10VVW", "div10VWW", "divWVW"}

var edgeWords = []uint64{0, 1, 2, 9, 10, h.Base - 1, h.Base - 2, h.Base / 2, h.Base/2 - 1, h.Base/2 + 1, h.Base / 10, h.Base/10 - 1, 1000000000, 999999999, 4294967296, 4294967295, 1 << 63 % h.Base, 9223372036854775807}

func genWordLT(t *rapid.T, label string, lim uint64) uint64 {
	// a word in [0, lim)
	if lim <= 1 {
		return 0
	}
	switch rapid.IntRange(0, 3).Draw(t, label+".cls") {
	case 0:
		w := rapid.SampledFrom(edgeWords).Draw(t, label+".edge")
		return w % lim
	case 1:
		return lim - 1 - uint64(rapid.IntRange(0, 3).Draw(t, label+".top"))%lim
	}
	return rapid.Uint64Range(0, lim-1).Draw(t, label)
}

func genVec(t *rapid.T, label string, n int) []uint64 {
	if n == 0 {
		return []uint64{}
	}
	w := h.GenWords(t, label, n)
	// carry chains: sometimes make a long run of 9s / 0s at the low end with a terminator at a chosen place
	if rapid.IntRange(0, 2).Draw(t, label+".chain") == 0 {
		fill := rapid.SampledFrom([]uint64{h.Base - 1, 0}).Draw(t, label+".fill")
		stop := rapid.IntRange(0, n).Draw(t, label+".stop")
		for i := 0; i < stop && i < n; i++ {
			w[i] = fill
		}
	}
	return w
}

func genC07(t *rapid.T) C07Case {
	c := C07Case{K: rapid.SampledFrom(c07Kernels).Draw(t, "k")}
	n := rapid.IntRange(0, 70).Draw(t, "n")
	if rapid.IntRange(0, 11).Draw(t, "long") == 0 {
		// far beyond the unrolled bodies: block-copy style fast paths have their own thresholds (128, 256, 512 words)
		n = rapid.SampledFrom([]int{127, 128, 129, 255, 256, 257, 258, 300, 511, 512, 513, 600}).Draw(t, "nlong") + rapid.IntRange(0, 3).Draw(t, "nlongoff")
		if rapid.IntRange(0, 4).Draw(t, "nhuge") == 0 {
			n = rapid.SampledFrom([]int{1023, 1024, 1025, 1030, 2047, 2048, 2049, 4095, 4096, 4100}).Draw(t, "nhugev") + rapid.IntRange(0, 3).Draw(t, "nhugeoff")
		}
	}
	shape := func(opts ...string) {
		c.Shape = rapid.SampledFrom(append([]string{""}, opts...)).Draw(t, "shape")
	}
	switch c.K {
	case "mul10WW":
		c.W, c.W2 = genWordLT(t, "x", h.Base), genWordLT(t, "y", h.Base)
	case "div10WW":
		c.S = 0
		y := 1 + genWordLT(t, "y", h.Base-1)
		c.W = y
		c.W2 = genWordLT(t, "x1", y) // x1 < y
		c.X = []uint64{genWordLT(t, "x0", h.Base)}
	case "div10W":
		c.W = genWordLT(t, "n1", h.Base) // n1 < 10^19
		c.W2 = rapid.SampledFrom([]uint64{0, 1, ^uint64(0), 1 << 63, 1<<63 - 1, h.Base, h.Base - 1, 12345}).Draw(t, "n0e")
		if rapid.Bool().Draw(t, "n0r") {
			c.W2 = rapid.Uint64().Draw(t, "n0")
		}
	case "add10VV", "sub10VV":
		c.X, c.Y = genVec(t, "x", n), genVec(t, "y", n)
		if c.K == "sub10VV" && rapid.Bool().Draw(t, "eq") && n > 0 {
			c.Y = append([]uint64(nil), c.X...) // equal operands: borrow chains of zeros
			c.Y[rapid.IntRange(0, n-1).Draw(t, "bump")] = genWordLT(t, "bumpw", h.Base)
		}
		shape("inplace", "inplace-y", "far", "guard")
		c.Ext = rapid.SampledFrom([]int{0, 0, 1, 2, 5}).Draw(t, "ext")
		if n > 0 && rapid.IntRange(0, 3).Draw(t, "compl") == 0 {
			// word pairs whose 64-bit sum is exactly 2^64-1, 2^64 or 10^19-1 +- 1, fed by a carry from the word below:
			// the places where a kernel's carry detection (hardware carry, then a compare with the base) can slip
			for k := rapid.IntRange(1, 4).Draw(t, "complk"); k > 0; k-- {
				j := rapid.IntRange(0, n-1).Draw(t, "complj")
				tsum := rapid.SampledFrom([]uint64{^uint64(0), ^uint64(0), 0 /* 2^64 */, ^uint64(0) - 1, h.Base - 1, h.Base, h.Base - 2, 1 << 63, 1<<63 - 1}).Draw(t, "complt")
				lo := tsum - (h.Base - 1) // smallest x with tsum-x < Base (wraps for tsum < Base: then any x <= tsum)
				var x uint64
				if tsum >= h.Base-1 || tsum == 0 {
					x = lo + rapid.Uint64Range(0, h.Base-1-lo).Draw(t, "complx")
				} else {
					x = rapid.Uint64Range(0, tsum).Draw(t, "complx")
				}
				if y := tsum - x; x < h.Base && y < h.Base {
					c.X[j], c.Y[j] = x, y
					if c.K == "sub10VV" {
						c.X[j], c.Y[j] = x, x // x-y = 0 with a borrow from below
						if rapid.Bool().Draw(t, "complsub") {
							c.Y[j] = x + 1 // wraps to 2^64-1 before the borrow
							if c.Y[j] >= h.Base {
								c.Y[j] = x
							}
						}
					}
					if j > 0 && rapid.IntRange(0, 3).Draw(t, "complcarry") > 0 {
						c.X[j-1], c.Y[j-1] = h.Base-1, h.Base-1 // carry out of the word below
						if c.K == "sub10VV" {
							c.X[j-1], c.Y[j-1] = 0, 1 // borrow out of the word below
						}
					}
				}
			}
		}
	case "add10VW", "sub10VW":
		c.X = genVec(t, "x", n)
		c.W = genWordLT(t, "y", h.Base)
		if rapid.Bool().Draw(t, "small") {
			c.W = uint64(rapid.IntRange(0, 1).Draw(t, "c"))
		}
		shape("inplace")
		// decKaratsubaAdd/Sub call these with a source longer than the destination: add10VW(z[n:n+n>>1], z[n:], c)
		c.Ext = rapid.SampledFrom([]int{0, 0, 1, 3, 40}).Draw(t, "ext")
		if c.Ext > 0 && rapid.Bool().Draw(t, "extnines") {
			// a carry/borrow that runs through the whole destination and must be returned, not pushed into the extra words
			fill := uint64(h.Base - 1)
			if c.K == "sub10VW" {
				fill = 0
			}
			for i := range c.X {
				c.X[i] = fill
			}
			c.W = 1
		}
		if c.Ext == 0 && c.Shape == "" && rapid.IntRange(0, 3).Draw(t, "far") == 0 {
			c.Shape = rapid.SampledFrom([]string{"far", "guard"}).Draw(t, "fargd")
		}
	case "shl10VU", "shr10VU":
		c.X = genVec(t, "x", n)
		c.S = uint(rapid.IntRange(0, 18).Draw(t, "s"))
		shape("inplace", "overlap", "far", "guard")
		if c.Shape == "overlap" {
			c.Off = rapid.IntRange(1, 9).Draw(t, "off")
		}
	case "mulAdd10VWW":
		c.X = genVec(t, "x", n)
		c.W, c.W2 = genWordLT(t, "y", h.Base), genWordLT(t, "r", h.Base)
		shape("inplace", "far", "guard")
	case "addMul10VVW":
		c.X, c.Y = genVec(t, "x", n), genVec(t, "z", n)
		c.W = genWordLT(t, "y", h.Base)
	case "div10VWW":
		c.X = genVec(t, "x", n)
		c.W = 1 + genWordLT(t, "y", h.Base-1)
		c.W2 = genWordLT(t, "xn", c.W)
		shape("inplace", "far", "guard")
	case "divWVW":
		x := make([]uint64, n)
		st := rapid.Uint64().Draw(t, "fill")
		for i := range x {
			switch rapid.IntRange(0, 3).Draw(t, "wk") {
			case 0:
				x[i] = 0
			case 1:
				x[i] = ^uint64(0)
			default:
				st = st*6364136223846793005 + 1442695040888963407
				x[i] = st
			}
		}
		c.X = x
		c.W = rapid.SampledFrom([]uint64{h.Base, 1, 2, 3, ^uint64(0), 1 << 63, 1<<63 + 1, 10, 1 << 32}).Draw(t, "ye")
		if rapid.Bool().Draw(t, "yr") {
			c.W = 1 + rapid.Uint64Range(0, ^uint64(0)-1).Draw(t, "y")
		}
		c.W2 = rapid.Uint64Range(0, c.W-1).Draw(t, "xn")
		shape("inplace")
	}
	if c.Shape == "guard" {
		c.Off = rapid.IntRange(0, 1).Draw(t, "guardside") // sources flush against the page behind them / right after the page in front
	}
	return c
}

func toW(x []uint64) []decimal.Word {
	w := make([]decimal.Word, len(x))
	for i, v := range x {
		w[i] = decimal.Word(v)
	}
	return w
}

func vecBig(w []decimal.Word, base *big.Int) *big.Int {
	v := new(big.Int)
	for i := len(w) - 1; i >= 0; i-- {
		v.Mul(v, base)
		v.Add(v, new(big.Int).SetUint64(uint64(w[i])))
	}
	return v
}

var (
	bigBase = new(big.Int).SetUint64(h.Base)
	big2p64 = new(big.Int).Lsh(big.NewInt(1), 64)
)

func u(v uint64) *big.Int { return new(big.Int).SetUint64(v) }

func sameVec(a, b []decimal.Word) bool {
	if len(a) != len(b) {
		return false
	}
	for i := range a {
		if a[i] != b[i] {
			return false
		}
	}
	return true
}

// arrange lays out destination and sources for one kernel call according to
// the aliasing shape: it returns fresh copies of x (and y) and the destination
// z, where z may be x itself, y itself, or a slice of x's array shifted by off.
func arrange(shape string, off, ext int, x, y []uint64, up bool) (z, xs, ys []decimal.Word) {
	xs, ys = toW(x), toW(y)
	n := len(x)
	for i := 0; i < ext; i++ {
		// words beyond len(z) must be ignored by the kernel
		xs = append(xs, decimal.Word(h.Base-1-uint64(i)))
		ys = append(ys, decimal.Word(h.Base/2+uint64(i)))
	}
	switch shape {
	case "guard":
		// every operand ends flush against an inaccessible page or starts right after one: a kernel that reads
		// or writes one word beyond (or in front of) a vector faults instead of getting away with it
		srcAtEnd := off%2 == 0 // (off is otherwise unused with this shape) odd: sources start right after a guard page
		if gx, ok := guardedCopy(xs, srcAtEnd); ok {
			xs = gx
			if gy, ok := guardedCopy(ys, srcAtEnd); ok {
				ys = gy
			}
			if gz, ok := guardedCopy(make([]decimal.Word, n), up); ok {
				z = gz
				for i := range z {
					z[i] = 0xdeadbeefdeadbeef
				}
				return
			}
		}
		z = make([]decimal.Word, n)
	case "far":
		// source and destination 4 GiB apart: their addresses agree in the low 32 bits
		if a, b, ok := farPair(len(xs)); ok {
			copy(a, xs)
			xs = a
			z = b[:n]
			for i := range z {
				z[i] = 0xdeadbeefdeadbeef
			}
			return
		}
		z = make([]decimal.Word, n)
	case "inplace":
		z = xs[:n]
	case "inplace-y":
		z = ys[:n]
	case "overlap":
		// one array holding the source; destination overlaps it 'off' words higher (shl) or lower (shr)
		arr := make([]decimal.Word, n+off)
		if up {
			copy(arr, xs)
			xs = arr[:n]
			z = arr[off : off+n]
		} else {
			copy(arr[off:], xs)
			xs = arr[off : off+n]
			z = arr[:n]
		}
	default:
		z = make([]decimal.Word, n)
		for i := range z {
			z[i] = 0xdeadbeefdeadbeef // poison: every output word must be written
		}
	}
	return
}

func checkC07(c C07Case, o *h.Obs) *h.Fail {
	K := decimal.VerifKernels
	o.Label(c.K)
	if c.Shape != "" {
		o.Labelf("%s:%s", c.K, c.Shape)
		o.NonTrivial()
	}
	n := len(c.X)
	if n >= 5 || c.S != 0 {
		o.NonTrivial()
	}
	o.Labelf("len%%4=%d", n%4)
	fail := func(kind, f string, a ...interface{}) *h.Fail {
		return h.Failf(kind, "%s shape=%q n=%d s=%d: %s", c.K, c.Shape, n, c.S, fmt.Sprintf(f, a...))
	}
	type vw struct {
		z []decimal.Word
		c decimal.Word
	}
	// run twice: assembly (as built) and portable twin, on identically arranged memory
	run := func(f func(z, x, y []decimal.Word) decimal.Word, up bool) vw {
		z, xs, ys := arrange(c.Shape, c.Off, c.Ext, c.X, c.Y, up)
		cc := f(z, xs, ys)
		for i := 0; i < c.Ext; i++ {
			// the extra source words must not have been written
			if xs[len(c.X)+i] != decimal.Word(h.Base-1-uint64(i)) || len(ys) > len(c.Y)+i && ys[len(c.Y)+i] != decimal.Word(h.Base/2+uint64(i)) {
				cc = ^decimal.Word(0) // flag as a wild write
			}
		}
		return vw{append([]decimal.Word(nil), z...), cc}
	}
	cmp := func(a, g vw) *h.Fail {
		if a.c != g.c || !sameVec(a.z, g.z) {
			return fail("asm-vs-go", "assembly returned (%v, %d), portable Go returned (%v, %d)", a.z, a.c, g.z, g.c)
		}
		return nil
	}
	// vectors of hundreds of thousands of words: the math/big model (quadratic to build) is replaced by the assembly /
	// portable-twin comparison plus, for the carry chains of add10VV / sub10VV, a word-by-word reference written here
	giant := n > 40000
	var X *big.Int
	if !giant {
		X = vecBig(toW(c.X), bigBase)
	}
	switch c.K {
	case "mul10WW":
		a1, a0 := K.Mul10WW(decimal.Word(c.W), decimal.Word(c.W2))
		g1, g0 := K.Mul10WW_g(decimal.Word(c.W), decimal.Word(c.W2))
		if a1 != g1 || a0 != g0 {
			return fail("asm-vs-go", "(%d,%d) vs (%d,%d)", a1, a0, g1, g0)
		}
		want := new(big.Int).Mul(u(c.W), u(c.W2))
		got := new(big.Int).Add(new(big.Int).Mul(u(uint64(a1)), bigBase), u(uint64(a0)))
		if got.Cmp(want) != 0 || uint64(a0) >= h.Base {
			return fail("math", "%d*%d = (%d,%d)", c.W, c.W2, a1, a0)
		}
	case "div10WW":
		aq, ar := K.Div10WW(decimal.Word(c.W2), decimal.Word(c.X[0]), decimal.Word(c.W))
		gq, gr := K.Div10WW_g(decimal.Word(c.W2), decimal.Word(c.X[0]), decimal.Word(c.W))
		if aq != gq || ar != gr {
			return fail("asm-vs-go", "(%d,%d) vs (%d,%d)", aq, ar, gq, gr)
		}
		num := new(big.Int).Add(new(big.Int).Mul(u(c.W2), bigBase), u(c.X[0]))
		wq, wr := new(big.Int).QuoRem(num, u(c.W), new(big.Int))
		if wq.Cmp(u(uint64(aq))) != 0 || wr.Cmp(u(uint64(ar))) != 0 {
			return fail("math", "(%d:%d)/%d = (%d,%d) want (%v,%v)", c.W2, c.X[0], c.W, aq, ar, wq, wr)
		}
	case "div10W":
		aq, ar := K.Div10W(decimal.Word(c.W), decimal.Word(c.W2))
		gq, gr := K.Div10W_g(decimal.Word(c.W), decimal.Word(c.W2))
		if aq != gq || ar != gr {
			return fail("asm-vs-go", "(%d,%d) vs (%d,%d)", aq, ar, gq, gr)
		}
		num := new(big.Int).Add(new(big.Int).Mul(u(c.W), big2p64), u(c.W2))
		wq, wr := new(big.Int).QuoRem(num, bigBase, new(big.Int))
		if wq.Cmp(u(uint64(aq))) != 0 || wr.Cmp(u(uint64(ar))) != 0 {
			return fail("math", "(%d<<64+%d)/10^19 = (%d,%d) want (%v,%v)", c.W, c.W2, aq, ar, wq, wr)
		}
	case "add10VV", "sub10VV":
		fa, fg := K.Add10VV, K.Add10VV_g
		if c.K == "sub10VV" {
			fa, fg = K.Sub10VV, K.Sub10VV_g
		}
		a := run(func(z, x, y []decimal.Word) decimal.Word { return fa(z, x, y) }, true)
		g := run(func(z, x, y []decimal.Word) decimal.Word { return fg(z, x, y) }, true)
		if f := cmp(a, g); f != nil {
			return f
		}
		if giant {
			o.Labelf("%s:giant", c.K)
			if c.K == "add10VV" || c.K == "sub10VV" {
				var carry uint64
				for i := 0; i < n; i++ {
					var w uint64
					if c.K == "add10VV" {
						sum := c.X[i] + c.Y[i] + carry // < 2*10^19 < 2^65: may wrap
						wrapped := sum < c.X[i]
						carry = 0
						if wrapped || sum >= h.Base {
							sum -= h.Base // (wraps back into range when the sum had wrapped)
							carry = 1
						}
						w = sum
					} else {
						d := c.X[i] - c.Y[i] - carry
						if c.X[i] < c.Y[i]+carry {
							d += h.Base
							carry = 1
						} else {
							carry = 0
						}
						w = d
					}
					if uint64(a.z[i]) != w {
						return fail("math", "word %d of the result is %d, the word-by-word reference gives %d", i, a.z[i], w)
					}
				}
				if uint64(a.c) != carry {
					return fail("math", "carry out %d, the word-by-word reference gives %d", a.c, carry)
				}
			}
			return nil
		}
		Y := vecBig(toW(c.Y), bigBase)
		Bn := new(big.Int).Exp(bigBase, big.NewInt(int64(n)), nil)
		got := vecBig(a.z, bigBase)
		var want *big.Int
		if c.K == "add10VV" {
			want = new(big.Int).Add(X, Y)
			got.Add(got, new(big.Int).Mul(u(uint64(a.c)), Bn))
		} else {
			want = new(big.Int).Sub(X, Y)
			got.Sub(got, new(big.Int).Mul(u(uint64(a.c)), Bn))
		}
		if got.Cmp(want) != 0 || a.c > 1 {
			return fail("math", "vector result %v carry %d is not x%sy", a.z, a.c, map[string]string{"add10VV": "+", "sub10VV": "-"}[c.K])
		}
		if n >= 2 {
			o.Labelf("%s:carry=%d", c.K, a.c)
		}
	case "add10VW", "sub10VW":
		fa, fg := K.Add10VW, K.Add10VW_g
		if c.K == "sub10VW" {
			fa, fg = K.Sub10VW, K.Sub10VW_g
		}
		a := run(func(z, x, _ []decimal.Word) decimal.Word { return fa(z, x, decimal.Word(c.W)) }, true)
		g := run(func(z, x, _ []decimal.Word) decimal.Word { return fg(z, x, decimal.Word(c.W)) }, true)
		if f := cmp(a, g); f != nil {
			return f
		}
		if giant {
			o.Labelf("%s:giant", c.K)
			if c.K == "add10VV" || c.K == "sub10VV" {
				var carry uint64
				for i := 0; i < n; i++ {
					var w uint64
					if c.K == "add10VV" {
						sum := c.X[i] + c.Y[i] + carry // < 2*10^19 < 2^65: may wrap
						wrapped := sum < c.X[i]
						carry = 0
						if wrapped || sum >= h.Base {
							sum -= h.Base // (wraps back into range when the sum had wrapped)
							carry = 1
						}
						w = sum
					} else {
						d := c.X[i] - c.Y[i] - carry
						if c.X[i] < c.Y[i]+carry {
							d += h.Base
							carry = 1
						} else {
							carry = 0
						}
						w = d
					}
					if uint64(a.z[i]) != w {
						return fail("math", "word %d of the result is %d, the word-by-word reference gives %d", i, a.z[i], w)
					}
				}
				if uint64(a.c) != carry {
					return fail("math", "carry out %d, the word-by-word reference gives %d", a.c, carry)
				}
			}
			return nil
		}
		Bn := new(big.Int).Exp(bigBase, big.NewInt(int64(n)), nil)
		got := vecBig(a.z, bigBase)
		var want *big.Int
		if c.K == "add10VW" {
			want = new(big.Int).Add(X, u(c.W))
			got.Add(got, new(big.Int).Mul(u(uint64(a.c)), Bn))
		} else {
			want = new(big.Int).Sub(X, u(c.W))
			got.Sub(got, new(big.Int).Mul(u(uint64(a.c)), Bn))
		}
		if n > 0 && got.Cmp(want) != 0 {
			return fail("math", "vector result %v carry %d", a.z, a.c)
		}
		if n == 0 && uint64(a.c) != c.W {
			return fail("math", "empty vector: carry %d want %d", a.c, c.W)
		}
	case "shl10VU", "shr10VU":
		up := c.K == "shl10VU"
		fa, fg := K.Shl10VU, K.Shl10VU_g
		if !up {
			fa, fg = K.Shr10VU, K.Shr10VU_g
		}
		a := run(func(z, x, _ []decimal.Word) decimal.Word { return fa(z, x, c.S) }, up)
		g := run(func(z, x, _ []decimal.Word) decimal.Word { return fg(z, x, c.S) }, up)
		if f := cmp(a, g); f != nil {
			return f
		}
		if giant {
			o.Labelf("%s:giant", c.K)
			if c.K == "add10VV" || c.K == "sub10VV" {
				var carry uint64
				for i := 0; i < n; i++ {
					var w uint64
					if c.K == "add10VV" {
						sum := c.X[i] + c.Y[i] + carry // < 2*10^19 < 2^65: may wrap
						wrapped := sum < c.X[i]
						carry = 0
						if wrapped || sum >= h.Base {
							sum -= h.Base // (wraps back into range when the sum had wrapped)
							carry = 1
						}
						w = sum
					} else {
						d := c.X[i] - c.Y[i] - carry
						if c.X[i] < c.Y[i]+carry {
							d += h.Base
							carry = 1
						} else {
							carry = 0
						}
						w = d
					}
					if uint64(a.z[i]) != w {
						return fail("math", "word %d of the result is %d, the word-by-word reference gives %d", i, a.z[i], w)
					}
				}
				if uint64(a.c) != carry {
					return fail("math", "carry out %d, the word-by-word reference gives %d", a.c, carry)
				}
			}
			return nil
		}
		if n > 0 {
			p := new(big.Int).Exp(big.NewInt(10), big.NewInt(int64(c.S)), nil)
			Bn := new(big.Int).Exp(bigBase, big.NewInt(int64(n)), nil)
			got := vecBig(a.z, bigBase)
			if up {
				// x*10^s = c*B^n + z
				want := new(big.Int).Mul(X, p)
				got.Add(got, new(big.Int).Mul(u(uint64(a.c)), Bn))
				if got.Cmp(want) != 0 {
					return fail("math", "x*10^s != c*B^n+z (z=%v c=%d)", a.z, a.c)
				}
			} else {
				// x = z*10^s + c/10^(19-s)   (c holds the shifted-out digits at the top of a word)
				q, r := new(big.Int).QuoRem(X, p, new(big.Int))
				if got.Cmp(q) != 0 {
					return fail("math", "x/10^s != z (z=%v)", a.z)
				}
				wantC := new(big.Int).Mul(r, new(big.Int).Exp(big.NewInt(10), big.NewInt(int64(19-c.S)), nil))
				if c.S == 0 {
					wantC.SetInt64(0)
				}
				if wantC.Cmp(u(uint64(a.c))) != 0 {
					return fail("math", "shifted-out digits %d want %v", a.c, wantC)
				}
			}
		}
	case "mulAdd10VWW":
		a := run(func(z, x, _ []decimal.Word) decimal.Word {
			return K.MulAdd10VWW(z, x, decimal.Word(c.W), decimal.Word(c.W2))
		}, true)
		g := run(func(z, x, _ []decimal.Word) decimal.Word {
			return K.MulAdd10VWW_g(z, x, decimal.Word(c.W), decimal.Word(c.W2))
		}, true)
		if f := cmp(a, g); f != nil {
			return f
		}
		if giant {
			o.Labelf("%s:giant", c.K)
			if c.K == "add10VV" || c.K == "sub10VV" {
				var carry uint64
				for i := 0; i < n; i++ {
					var w uint64
					if c.K == "add10VV" {
						sum := c.X[i] + c.Y[i] + carry // < 2*10^19 < 2^65: may wrap
						wrapped := sum < c.X[i]
						carry = 0
						if wrapped || sum >= h.Base {
							sum -= h.Base // (wraps back into range when the sum had wrapped)
							carry = 1
						}
						w = sum
					} else {
						d := c.X[i] - c.Y[i] - carry
						if c.X[i] < c.Y[i]+carry {
							d += h.Base
							carry = 1
						} else {
							carry = 0
						}
						w = d
					}
					if uint64(a.z[i]) != w {
						return fail("math", "word %d of the result is %d, the word-by-word reference gives %d", i, a.z[i], w)
					}
				}
				if uint64(a.c) != carry {
					return fail("math", "carry out %d, the word-by-word reference gives %d", a.c, carry)
				}
			}
			return nil
		}
		Bn := new(big.Int).Exp(bigBase, big.NewInt(int64(n)), nil)
		want := new(big.Int).Add(new(big.Int).Mul(X, u(c.W)), u(c.W2))
		got := new(big.Int).Add(vecBig(a.z, bigBase), new(big.Int).Mul(u(uint64(a.c)), Bn))
		if got.Cmp(want) != 0 {
			return fail("math", "x*y+r != c*B^n+z (z=%v c=%d)", a.z, a.c)
		}
	case "addMul10VVW":
		// z += x*y, z given in Y
		do := func(f func(z, x []decimal.Word, y decimal.Word) decimal.Word) vw {
			z := toW(c.Y)
			cc := f(z, toW(c.X), decimal.Word(c.W))
			return vw{z, cc}
		}
		a, g := do(K.AddMul10VVW), do(K.AddMul10VVW_g)
		if f := cmp(a, g); f != nil {
			return f
		}
		if giant {
			o.Labelf("%s:giant", c.K)
			if c.K == "add10VV" || c.K == "sub10VV" {
				var carry uint64
				for i := 0; i < n; i++ {
					var w uint64
					if c.K == "add10VV" {
						sum := c.X[i] + c.Y[i] + carry // < 2*10^19 < 2^65: may wrap
						wrapped := sum < c.X[i]
						carry = 0
						if wrapped || sum >= h.Base {
							sum -= h.Base // (wraps back into range when the sum had wrapped)
							carry = 1
						}
						w = sum
					} else {
						d := c.X[i] - c.Y[i] - carry
						if c.X[i] < c.Y[i]+carry {
							d += h.Base
							carry = 1
						} else {
							carry = 0
						}
						w = d
					}
					if uint64(a.z[i]) != w {
						return fail("math", "word %d of the result is %d, the word-by-word reference gives %d", i, a.z[i], w)
					}
				}
				if uint64(a.c) != carry {
					return fail("math", "carry out %d, the word-by-word reference gives %d", a.c, carry)
				}
			}
			return nil
		}
		Bn := new(big.Int).Exp(bigBase, big.NewInt(int64(n)), nil)
		want := new(big.Int).Add(vecBig(toW(c.Y), bigBase), new(big.Int).Mul(X, u(c.W)))
		got := new(big.Int).Add(vecBig(a.z, bigBase), new(big.Int).Mul(u(uint64(a.c)), Bn))
		if got.Cmp(want) != 0 {
			return fail("math", "z+x*y != c*B^n+z' (z'=%v c=%d)", a.z, a.c)
		}
	case "div10VWW":
		a := run(func(z, x, _ []decimal.Word) decimal.Word {
			return K.Div10VWW(z, x, decimal.Word(c.W), decimal.Word(c.W2))
		}, true)
		g := run(func(z, x, _ []decimal.Word) decimal.Word {
			return K.Div10VWW_g(z, x, decimal.Word(c.W), decimal.Word(c.W2))
		}, true)
		if f := cmp(a, g); f != nil {
			return f
		}
		if giant {
			o.Labelf("%s:giant", c.K)
			if c.K == "add10VV" || c.K == "sub10VV" {
				var carry uint64
				for i := 0; i < n; i++ {
					var w uint64
					if c.K == "add10VV" {
						sum := c.X[i] + c.Y[i] + carry // < 2*10^19 < 2^65: may wrap
						wrapped := sum < c.X[i]
						carry = 0
						if wrapped || sum >= h.Base {
							sum -= h.Base // (wraps back into range when the sum had wrapped)
							carry = 1
						}
						w = sum
					} else {
						d := c.X[i] - c.Y[i] - carry
						if c.X[i] < c.Y[i]+carry {
							d += h.Base
							carry = 1
						} else {
							carry = 0
						}
						w = d
					}
					if uint64(a.z[i]) != w {
						return fail("math", "word %d of the result is %d, the word-by-word reference gives %d", i, a.z[i], w)
					}
				}
				if uint64(a.c) != carry {
					return fail("math", "carry out %d, the word-by-word reference gives %d", a.c, carry)
				}
			}
			return nil
		}
		Bn := new(big.Int).Exp(bigBase, big.NewInt(int64(n)), nil)
		num := new(big.Int).Add(new(big.Int).Mul(u(c.W2), Bn), X)
		wq, wr := new(big.Int).QuoRem(num, u(c.W), new(big.Int))
		if vecBig(a.z, bigBase).Cmp(wq) != 0 || wr.Cmp(u(uint64(a.c))) != 0 {
			return fail("math", "(xn:x)/y: z=%v r=%d want q=%v r=%v", a.z, a.c, wq, wr)
		}
	case "divWVW":
		a := run(func(z, x, _ []decimal.Word) decimal.Word {
			return K.DivWVW(z, decimal.Word(c.W2), x, decimal.Word(c.W))
		}, true)
		g := run(func(z, x, _ []decimal.Word) decimal.Word {
			return K.DivWVW_g(z, decimal.Word(c.W2), x, decimal.Word(c.W))
		}, true)
		if f := cmp(a, g); f != nil {
			return f
		}
		if giant {
			o.Labelf("%s:giant", c.K)
			if c.K == "add10VV" || c.K == "sub10VV" {
				var carry uint64
				for i := 0; i < n; i++ {
					var w uint64
					if c.K == "add10VV" {
						sum := c.X[i] + c.Y[i] + carry // < 2*10^19 < 2^65: may wrap
						wrapped := sum < c.X[i]
						carry = 0
						if wrapped || sum >= h.Base {
							sum -= h.Base // (wraps back into range when the sum had wrapped)
							carry = 1
						}
						w = sum
					} else {
						d := c.X[i] - c.Y[i] - carry
						if c.X[i] < c.Y[i]+carry {
							d += h.Base
							carry = 1
						} else {
							carry = 0
						}
						w = d
					}
					if uint64(a.z[i]) != w {
						return fail("math", "word %d of the result is %d, the word-by-word reference gives %d", i, a.z[i], w)
					}
				}
				if uint64(a.c) != carry {
					return fail("math", "carry out %d, the word-by-word reference gives %d", a.c, carry)
				}
			}
			return nil
		}
		Xb := vecBig(toW(c.X), big2p64)
		Bn := new(big.Int).Lsh(big.NewInt(1), uint(64*n))
		num := new(big.Int).Add(new(big.Int).Mul(u(c.W2), Bn), Xb)
		wq, wr := new(big.Int).QuoRem(num, u(c.W), new(big.Int))
		if vecBig(a.z, big2p64).Cmp(wq) != 0 || wr.Cmp(u(uint64(a.c))) != 0 {
			return fail("math", "binary (xn:x)/y: z=%v r=%d want q=%v r=%v", a.z, a.c, wq, wr)
		}
	default:
		return h.Failf("bad-case", "kernel %q", c.K)
	}
	return nil
}

// TestC07Grid enumerates every shift count 0..18 x vector length 0..70 x
// {fresh, in place, overlapping} for both shift kernels, and every length
// 0..70 x {fresh, in place} x carry-dies-at position for the VW kernels.
func TestC07Grid(t *testing.T) {
	defer h.WriteStats("C07")
	n := 0
	st := uint64(0x1234567)
	next := func() uint64 {
		st = st*6364136223846793005 + 1442695040888963407
		switch (st >> 60) & 3 {
		case 0:
			return h.Base - 1
		case 1:
			return 0
		}
		return (st >> 1) % h.Base
	}
	runCase := func(c C07Case) {
		o := &h.Obs{}
		if f := propC07.SafeCheck(c, o); f != nil {
			b := fmt.Sprintf("%+v", c)
			h.ReportGridFail(t, "C07", f, mustJSON(c))
			_ = b
		}
		h.RecordGrid("C07", o, c)
		n++
	}
	// vectors of more than 2^18 words (5 million digits), where a kernel that works in blocks - to stay preemptible, or
	// to fit a cache - has its seams: a carry or borrow that ripples through every word (word sums of exactly 10^19-1
	// above a lowest pair that carries), in-array shifts, every vector kernel; destinations separate and in place
	for _, l := range []int{1<<18 + 1, 1<<19 + 5, 600011} {
		x, y := make([]uint64, l), make([]uint64, l)
		for i := range x {
			y[i] = next() % h.Base
			x[i] = h.Base - 1 - y[i] // x[i] + y[i] = 10^19 - 1
		}
		x[0] = h.Base - y[0] // the lowest pair carries: the carry runs through all l words
		if y[0] == 0 {
			x[0], y[0] = h.Base-1, 1
		}
		eq := append([]uint64(nil), x...)
		eq[0]++ // x - eq borrows at the lowest word and the borrow runs through all l words (x[i] - eq[i] = 0 above)
		if eq[0] >= h.Base {
			eq[0] = 1
		}
		rnd := make([]uint64, l)
		for i := range rnd {
			rnd[i] = 1 + next()%(h.Base-1)
		}
		for _, sh := range []string{"", "inplace", "inplace-y"} {
			runCase(C07Case{K: "add10VV", X: x, Y: y, Shape: sh})
			runCase(C07Case{K: "sub10VV", X: eq, Y: x, Shape: sh})
			runCase(C07Case{K: "sub10VV", X: x, Y: eq, Shape: sh})
		}
		nines := make([]uint64, l)
		zeros := make([]uint64, l)
		for i := range nines {
			nines[i] = h.Base - 1
		}
		for _, sh := range []string{"", "inplace"} {
			runCase(C07Case{K: "add10VW", X: nines, W: 1, Shape: sh})
			runCase(C07Case{K: "sub10VW", X: zeros, W: 1, Shape: sh})
			runCase(C07Case{K: "mulAdd10VWW", X: rnd, W: h.Base - 1, W2: h.Base - 2, Shape: sh})
			runCase(C07Case{K: "div10VWW", X: rnd, W: 7, W2: 6, Shape: sh})
			for _, sft := range []uint{0, 1, 18} {
				runCase(C07Case{K: "shl10VU", X: rnd, S: sft, Shape: sh})
				runCase(C07Case{K: "shr10VU", X: rnd, S: sft, Shape: sh})
			}
		}
		runCase(C07Case{K: "addMul10VVW", X: rnd, Y: nines, W: h.Base - 1})
		for _, off := range []int{1, 3, l / 3, l - 1} {
			runCase(C07Case{K: "shl10VU", X: rnd, S: 0, Shape: "overlap", Off: off})
			runCase(C07Case{K: "shl10VU", X: rnd, S: 11, Shape: "overlap", Off: off})
			runCase(C07Case{K: "shr10VU", X: rnd, S: 0, Shape: "overlap", Off: off})
			runCase(C07Case{K: "shr10VU", X: rnd, S: 5, Shape: "overlap", Off: off})
		}
	}
	// long in-array shifts: block-copy fast paths start at sizes of their own (kilobytes, pages, 64 KiB) and must get
	// the overlap direction right for every distance between source and destination, not only for neighbours
	for _, k := range []string{"shl10VU", "shr10VU"} {
		for _, l := range []int{1500, 8192, 8200, 20011} {
			x := make([]uint64, l)
			for i := range x {
				x[i] = 1 + next()%(h.Base-1)
			}
			for _, s := range []uint{0, 7} {
				for _, off := range []int{1, 2, l / 16, l/8 - 1, l / 8, l / 5, l / 2, l - 1, l} {
					runCase(C07Case{K: k, X: x, S: s, Shape: "overlap", Off: off})
				}
				runCase(C07Case{K: k, X: x, S: s, Shape: "inplace"})
				runCase(C07Case{K: k, X: x, S: s})
			}
		}
	}
	for _, k := range []string{"shl10VU", "shr10VU"} {
		for s := uint(0); s <= 18; s++ {
			for l := 0; l <= 70; l++ {
				x := make([]uint64, l)
				for i := range x {
					x[i] = next()
				}
				for _, sh := range []struct {
					s   string
					off int
				}{{"", 0}, {"inplace", 0}, {"overlap", 1}, {"overlap", 3}} {
					runCase(C07Case{K: k, X: x, S: s, Shape: sh.s, Off: sh.off})
				}
			}
		}
	}
	vwLens := []int{}
	for l := 0; l <= 70; l++ {
		vwLens = append(vwLens, l)
	}
	vwLens = append(vwLens, 127, 128, 129, 255, 256, 257, 258, 259, 260, 261, 300, 511, 512, 513, 514, 515, 516, 600)
	for _, k := range []string{"add10VW", "sub10VW"} {
		for _, l := range vwLens {
			step := 1
			if l > 70 {
				step = 1 + l/40
			}
			for stop := 0; stop <= l; stop += step {
				// carry/borrow propagates through 'stop' words and dies there
				x := make([]uint64, l)
				for i := range x {
					switch {
					case i < stop && k == "add10VW":
						x[i] = h.Base - 1
					case i < stop:
						x[i] = 0
					default:
						x[i] = 1 + next()%(h.Base-2)
					}
				}
				for _, sh := range []string{"", "inplace"} {
					runCase(C07Case{K: k, X: x, W: 1, Shape: sh})
					if l <= 70 && stop%3 == 0 {
						runCase(C07Case{K: k, X: x, W: 1, Shape: sh, Ext: 2})
					}
				}
			}
		}
	}
	// VV kernels: every length x carry/borrow chain that dies at every position x aliasing shape
	for _, k := range []string{"add10VV", "sub10VV"} {
		for l := 0; l <= 70; l++ {
			for stop := 0; stop <= l; stop += 1 + l/12 {
				x, y := make([]uint64, l), make([]uint64, l)
				for i := range x {
					switch {
					case i == 0 && stop > 0 && k == "add10VV":
						x[i], y[i] = h.Base-1, 1 // generates a carry ...
					case i < stop && k == "add10VV":
						x[i], y[i] = h.Base-1, 0 // ... that propagates
					case i == 0 && stop > 0:
						x[i], y[i] = 0, 1 // generates a borrow ...
					case i < stop:
						x[i], y[i] = 0, 0 // ... that propagates
					default:
						x[i], y[i] = next()%(h.Base/2), next()%(h.Base/2)
					}
				}
				for _, sh := range []string{"", "inplace", "inplace-y"} {
					for _, ext := range []int{0, 2} {
						runCase(C07Case{K: k, X: x, Y: y, Shape: sh, Ext: ext})
					}
				}
			}
		}
	}
	// scalar-by-vector kernels: every length with extreme words and scalars
	for l := 0; l <= 70; l++ {
		for _, w := range []uint64{0, 1, h.Base - 1, h.Base / 2, 9} {
			x, z := make([]uint64, l), make([]uint64, l)
			for i := range x {
				switch (i + int(w)) % 3 {
				case 0:
					x[i], z[i] = h.Base-1, h.Base-1
				case 1:
					x[i], z[i] = next(), next()
				default:
					x[i], z[i] = 0, h.Base-1
				}
			}
			for _, sh := range []string{"", "inplace"} {
				runCase(C07Case{K: "mulAdd10VWW", X: x, W: w, W2: h.Base - 1 - w%7, Shape: sh})
				if w > 0 {
					runCase(C07Case{K: "div10VWW", X: x, W: w, W2: w - 1, Shape: sh})
					runCase(C07Case{K: "div10VWW", X: x, W: w, W2: 0, Shape: sh})
				}
			}
			if l > 0 && w > 0 {
				for side := 0; side <= 1; side++ {
					runCase(C07Case{K: "mulAdd10VWW", X: x, W: w, W2: 3, Shape: "guard", Off: side})
					runCase(C07Case{K: "div10VWW", X: x, W: w, W2: w - 1, Shape: "guard", Off: side})
				}
			}
			runCase(C07Case{K: "addMul10VVW", X: x, Y: z, W: w})
		}
	}
	h.AddExtra("C07", "grid_cases_enumerated", n)
}

const ruleC07 = "kernel half: rapid-generated calls of the 12 decimal kernels and divWVW through the hook exports, within the call-site preconditions only (words < 10^19, dividend high word < divisor, shift 0..18): vector lengths 0..70 (all residues mod 4, the >=5-word copy fast paths) and, in one case of twelve, lengths around 128, 256, 512, 600, 1024, 2048 and 4096, words from {0,1,10^19-1,5*10^18,10^k,10^k-1,2^32,2^63-1,...} in runs plus uniform, low-end carry/borrow chains with a chosen terminator position, word pairs whose 64-bit sum is exactly 2^64-1 / 2^64 / 10^19-1 +- 1 above a carrying word, scalar operands from the same sets, destination fresh (poisoned), equal to x, equal to y, 4 GiB away from x inside one sparse mapping (addresses equal in their low 32 bits), with every vector flush against an inaccessible guard page (an access one word beyond a vector faults, and the fault is reported as a panic), or overlapping x inside one array the way dec.shl/dec.shr call it; sources longer than the destination the way decAddAt, divBasic and decKaratsubaAdd/Sub call the VV and VW kernels (extra words must be ignored and left untouched). Oracle: assembly output == portable twin output (vector and carry/borrow/remainder) and both == the big.Int definition. Enumerated completely on every run: shift 0..18 x length 0..70 x {fresh, in place, overlap 1, overlap 3} for shl/shr; length 0..70 x carry-dies-at-every-position x {fresh, in place} for add10VW/sub10VW; length x carry/borrow chain x {fresh, in place x, in place y} x {equal length, longer sources} for add10VV/sub10VV; length 0..70 x extreme scalars for mulAdd10VWW/addMul10VVW/div10VWW. Non-trivial = length >= 5, or shift != 0, or an aliased destination. Program half: see samples of kind 'program' (same public operation sequence executed by three builds: default, decimal_pure_go, decimal_pure_go+math_big_pure_go; per-step snapshots compared)."

var propC07 = &h.Prop[C07Case]{ID: "C07", Rule: ruleC07, Gen: genC07, Check: checkC07, Matchers: map[string]func(C07Case) bool{},
	Filter: func(path string) bool { return !strings.Contains(path, "prog-") }}

func TestC07(t *testing.T) { propC07.Search(t) }
func TestC07Replay(t *testing.T) {
	propC07.Replay(t)
	propC07Prog.Replay(t)
}
