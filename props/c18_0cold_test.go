//go:build verif

package props

import (
	"encoding/json"
	"os"
	"path/filepath"
	"runtime"
	"sync"
	"testing"

	"github.com/db47h/decimal"

	"verif/h"
)

// TestC18Grid is the cold-start part of C18 and must be the first test of this package to touch the library's
// arithmetic (the file name sorts before c18_test.go, the driver's pattern selects only C18 tests): whatever the
// library sets up on first use (tables, constants, pools) is then set up by goroutines that all make their first
// calls at the same moment, on shared operands, under the race detector. Each goroutine runs every operation kind,
// starting at a different one; results are compared with the same programs run sequentially afterwards.
func TestC18Grid(t *testing.T) {
	defer h.WriteStats("C18")
	kinds := []string{"sqrt", "quo", "mul", "sqr", "fma", "add", "sub", "text", "format", "wideformat", "float64", "int", "gob", "marshaltext", "cmp", "set"}
	c := C18Case{Procs: 16, Pool: []h.Spec{
		{F: "f", D: "2", E: 1, P: 40, M: 0},
		{F: "f", D: "314159265358979323846264338327950288419716939937510582097494459", E: 3, P: 70, M: 2},
		{F: "f", D: h.WordsToDigits(repeatWord(7777777777777777777, 40)), E: 20, P: 40 * h.DW, M: 0},
		{F: "f", D: h.WordsToDigits(repeatWord(1234567890123456789, 120)), E: -7, P: 120 * h.DW, M: 3},
	}}
	for g := 0; g < 16; g++ {
		var prog []ConcOp
		for i := range kinds {
			k := kinds[(i+g)%len(kinds)]
			prog = append(prog, ConcOp{K: k, A: []int{(g + i) % 4, (g + 2*i + 1) % 4, (i + 3) % 4}, P: uint(30 + 50*(i%4) + 600*(g%2)), M: uint8((g + i) % 6)})
		}
		c.Progs = append(c.Progs, prog)
	}
	if out := os.Getenv("VERIF_OUT"); out != "" {
		b, _ := json.Marshal(c)
		_ = os.WriteFile(filepath.Join(out, "last-case-C18.json"), b, 0o644)
	}
	pool := make([]*decimal.Decimal, len(c.Pool))
	before := make([]h.Snap, len(c.Pool))
	for i, s := range c.Pool {
		pool[i] = s.Build()
		before[i] = h.Read(pool[i])
	}
	old := runtime.GOMAXPROCS(c.Procs)
	defer runtime.GOMAXPROCS(old)
	got := make([][]string, len(c.Progs))
	var wg sync.WaitGroup
	start := make(chan struct{})
	for g := range c.Progs {
		wg.Add(1)
		go func(g int) {
			defer wg.Done()
			<-start
			got[g] = runConcProg(pool, c.Progs[g])
		}(g)
	}
	close(start)
	wg.Wait()
	o := &h.Obs{}
	o.Label("cold-start")
	o.NonTrivial()
	for g := range c.Progs {
		want := runConcProg(pool, c.Progs[g])
		for i := range want {
			if i >= len(got[g]) || want[i] != got[g][i] {
				h.ReportGridFail(t, "C18", h.Failf("result", "cold start: goroutine %d, result %d differs from the sequential run afterwards:\n concurrent: %s\n sequential: %s", g, i, h.FirstN(at(got[g], i), 300), h.FirstN(want[i], 300)), mustJSON(c))
			}
		}
	}
	for i := range pool {
		if after := h.Read(pool[i]); !after.SameAll(before[i]) {
			h.ReportGridFail(t, "C18", h.Failf("operand-modified", "cold start: shared operand %d changed: %v -> %v", i, before[i], after), mustJSON(c))
		}
	}
	h.RecordGrid("C18", o, c)
	h.AddExtra("C18", "cold_start_goroutines", len(c.Progs))
	if h.Thorough() {
		// three goroutines dividing and squaring shared operands of 33 000 and 66 000 words (scratch requests beyond
		// 2^15 words): far beyond the generated sizes, once per thorough run
		g := C18Case{Procs: 4, Pool: []h.Spec{
			{F: "f", D: h.WordsToDigits(repeatWord(8765432109876543210, 66100)), E: 5, P: 66100 * h.DW, M: 0},
			{F: "f", D: h.WordsToDigits(repeatWord(3456789012345678901, 33050)), E: -3, P: 33050 * h.DW, M: 0},
			{F: "f", D: "7", E: 1, P: 1, M: 0},
		}}
		for i := 0; i < 3; i++ {
			// several giant operations in a row per goroutine: a buffer parked by one operation is there to be taken
			// (by two takers at once) when the next ones start
			var prog []ConcOp
			for j := 0; j < 3; j++ {
				prog = append(prog, ConcOp{K: []string{"quo", "quo", "sqr"}[(i+j)%3], A: []int{(i + j) % 2, 1, 2}, P: uint(33040*h.DW + i + j), M: uint8(i)})
			}
			g.Progs = append(g.Progs, prog)
		}
		if f := checkC18(g, o); f != nil {
			h.ReportGridFail(t, "C18", f, mustJSON(g))
		}
		// ... and a hammer: eight goroutines, 50 short quotients each by the same two divisors of 33 000 and 66 100 words (the
		// scratch copy of the divisor is giant, the work per call is not): thousands of chances for two calls to ask
		// for giant scratch at the same moment. Schedules are explored by repetition only.
		hm := C18Case{Procs: 16, Pool: []h.Spec{
			{F: "f", D: h.WordsToDigits(append([]uint64{4999999999999999999}, repeatWord(1357913579135791357, 4)...)), E: 3, P: 5 * h.DW, M: 0},
			{F: "f", D: h.WordsToDigits(append([]uint64{7000000000000000001}, repeatWord(2468024680246802468, 4)...)), E: -2, P: 5 * h.DW, M: 0},
			{F: "f", D: h.WordsToDigits(append([]uint64{1234567890123456789}, repeatWord(8765432109876543210, 32999)...)), E: 5, P: 33000 * h.DW, M: 0},
			{F: "f", D: h.WordsToDigits(append([]uint64{8876543210987654321}, repeatWord(3456789012345678901, 66099)...)), E: 0, P: 66100 * h.DW, M: 0}, // beyond 2^16 words
		}}
		for i := 0; i < 8; i++ {
			var prog []ConcOp
			for j := 0; j < 50; j++ {
				prog = append(prog, ConcOp{K: "quo", A: []int{(i + j) % 2, 2 + (i+j/2)%2, 0}, P: uint(19 + 19*((i+j)%2)), M: uint8((i + j) % 6)})
			}
			hm.Progs = append(hm.Progs, prog)
		}
		if f := checkC18(hm, o); f != nil {
			h.ReportGridFail(t, "C18", f, mustJSON(hm))
		}
		h.AddExtra("C18", "giant_concurrent_workloads", 2)
	}
}

func at(s []string, i int) string {
	if i < len(s) {
		return s[i]
	}
	return "<missing>"
}

func repeatWord(w uint64, n int) []uint64 {
	out := make([]uint64, n)
	for i := range out {
		out[i] = w
	}
	return out
}
